import Cpppo.Proofs.Session
import Cpppo.Props.C07
/-!
# C06 — Exactly one matching reply per request, delivered in request order

Statement (properties.jsonl): on a session every complete well-formed request frame is answered by exactly one
reply frame, replies are sent in the order the requests were received even when many requests are written before
any reply is read, each reply carries the request's sender context and session handle and, for a supported
service, the request's service code with the reply bit 0x80 inside the same SendRRData framing (null address
item + one data item); an unsupported or unroutable request is answered by one frame with a non-zero
encapsulation status.  Register Session returns a non-zero handle; Unregister Session returns nothing and ends
the session.

The theorems are about `Cpppo.Session.serve` (the `enip_srv_tcp` loop) and `process` (`logix.process` /
`UCMM.request` / `Connection_Manager.request`, with `Cpppo.Logix.exec` as the tag-serving core), for *every* device
state, route personality, random stream, list of frames (any length, any mixture of kinds, failing ones
included), every sender context, session handle, status and options value.  "Well-formed" is `Frame.parsable`:
the frame is accepted by the simulator's command grammar (everything but a Register shorter than 4 bytes and an
unknown encapsulation command); what happens to the others is
`unparsable_not_answered` (the connection is dropped without a reply: documented behaviour of `enip_srv`).

The code before the `fix:` commit is `processOld`: `old_echoes_request` is the witness that it violated the
service-code clause.
-/
namespace Cpppo.Session
open Cpppo Cpppo.Logix

/-! ## exactly one reply per request, in request order -/

/-- **One reply each, in order.**  Serving any list of well-formed frames consumes a prefix of it
(`consumed` frames); the replies sent are, position by position, one for each frame of that prefix other than
Unregister Session, and each echoes its request (`Echoes`: command, sender context, options, session handle -- for
Register Session a non-zero new handle); nothing is ever sent for a frame outside the prefix; the loop does not
abort; input is left unconsumed only after the session was closed. -/
theorem one_reply_each (cfg : Cfg) (s : Srv) (fs : List Frame) (hp : ∀ f ∈ fs, f.parsable = true) :
    (serve cfg s fs).consumed ≤ fs.length ∧
    Matched Echoes (expected cfg (fs.take (serve cfg s fs).consumed)) (serve cfg s fs).replies ∧
    ((serve cfg s fs).end = .open → (serve cfg s fs).consumed = fs.length) ∧
    (serve cfg s fs).end ≠ .aborted :=
  serveWith_answers true cfg s fs hp

/-- The same without any hypothesis on the input (malformed frames mixed in): the replies are, in order, one for
each consumed frame that is well-formed and not Unregister; an unparsable frame is the last one consumed, and it
is exactly then that the loop ends by an exception. -/
theorem replies_general (cfg : Cfg) (s : Srv) (fs : List Frame) :
    (serve cfg s fs).consumed ≤ fs.length ∧
    Matched Echoes ((fs.take (serve cfg s fs).consumed).filter fun f => f.parsable && !f.silent cfg)
      (serve cfg s fs).replies ∧
    ((serve cfg s fs).end = .open → (serve cfg s fs).consumed = fs.length) ∧
    ((serve cfg s fs).end = .aborted ↔
      ∃ f, fs[(serve cfg s fs).consumed - 1]? = some f ∧ 0 < (serve cfg s fs).consumed ∧ f.parsable = false) := by
  simp only [serve]
  induction fs generalizing s with
  | nil => exact ⟨Nat.le_refl _, Matched.nil, fun _ => rfl, by simp [serveWith]⟩
  | cons f fs ih =>
    cases hpf : f.parsable with
    | false =>
      simp only [serveWith, process_unparsable true cfg s f hpf]
      refine ⟨by simp, ?_, by simp, by simp [hpf]⟩
      simp [hpf, Matched.nil]
    | true =>
      cases hu : f.silent cfg with
      | true =>
        simp only [serveWith, process_unregister true cfg s f hu]
        refine ⟨by simp, ?_, by simp, by simp [hpf]⟩
        simp [hu, Matched.nil]
      | false =>
        obtain ⟨r, hr⟩ := process_replies true cfg s f hpf hu
        have hpe : processWith true cfg s f = ((processWith true cfg s f).1, .reply r) := by
          rw [← hr]
        have hech : Echoes f r := process_echoes true cfg s f r hr
        rw [serveWith, hpe]
        dsimp only
        split
        · obtain ⟨h1, h2, h3, h4⟩ := ih (processWith true cfg s f).1
          refine ⟨?_, ?_, fun ho => by simp [h3 ho], ?_⟩
          · simp only [List.length_cons]
            exact Nat.succ_le_succ h1
          · simp only [List.take_succ_cons, List.filter_cons, hpf, hu, Bool.not_false, Bool.and_self, ite_true]
            exact Matched.cons hech h2
          · rw [h4]
            constructor
            · rintro ⟨g, hg, hpos, hgp⟩
              refine ⟨g, ?_, Nat.succ_pos _, hgp⟩
              have : (serveWith true cfg (processWith true cfg s f).1 fs).consumed + 1 - 1
                  = ((serveWith true cfg (processWith true cfg s f).1 fs).consumed - 1) + 1 := by omega
              rw [this, List.getElem?_cons_succ]
              exact hg
            · rintro ⟨g, hg, _, hgp⟩
              by_cases h0 : (serveWith true cfg (processWith true cfg s f).1 fs).consumed = 0
              · simp only [h0, Nat.zero_add, Nat.sub_self, List.getElem?_cons_zero, Option.some.injEq] at hg
                subst hg
                rw [hpf] at hgp
                cases hgp
              · refine ⟨g, ?_, Nat.pos_of_ne_zero h0, hgp⟩
                have : (serveWith true cfg (processWith true cfg s f).1 fs).consumed + 1 - 1
                    = ((serveWith true cfg (processWith true cfg s f).1 fs).consumed - 1) + 1 := by omega
                rw [this, List.getElem?_cons_succ] at hg
                exact hg
        · refine ⟨by simp, ?_, by simp, by simp [hpf]⟩
          simp only [List.take_succ_cons, List.take_zero, List.filter_cons, hpf, hu, Bool.not_false, Bool.and_self,
            ite_true, List.filter_nil]
          exact Matched.cons hech Matched.nil

/-- the number of replies is the number of consumed frames that are not Unregister Session -/
theorem reply_count (cfg : Cfg) (s : Srv) (fs : List Frame) (hp : ∀ f ∈ fs, f.parsable = true) :
    (serve cfg s fs).replies.length = (expected cfg (fs.take (serve cfg s fs).consumed)).length :=
  ((one_reply_each cfg s fs hp).2.1.length_eq).symm

/-- **Request order**: the k-th reply answers the k-th answerable request -- it carries that request's sender
context, whatever the contexts are (equal ones included). -/
theorem in_request_order (cfg : Cfg) (s : Srv) (fs : List Frame) (hp : ∀ f ∈ fs, f.parsable = true)
    (k : Nat) (f : Frame) (r : ReplyFrame)
    (hf : (expected cfg (fs.take (serve cfg s fs).consumed))[k]? = some f)
    (hr : (serve cfg s fs).replies[k]? = some r) :
    r.context = f.hdr.context ∧ r.command = f.command :=
  let e := (one_reply_each cfg s fs hp).2.1.get k f r hf hr
  ⟨e.context, e.command⟩

/-- **The session stops only when told to.**  Every reply but the last has encapsulation status 0, a session
still open at the end of the input has sent only status 0, and an Unregister Session is the last frame consumed:
so the consumed prefix ends exactly at the first Unregister or the first reply with a non-zero status. -/
theorem stops_only_when_told (cfg : Cfg) (s : Srv) (fs : List Frame) :
    (∀ r ∈ (serve cfg s fs).replies.dropLast, r.status = 0) ∧
    ((serve cfg s fs).end = .open → ∀ r ∈ (serve cfg s fs).replies, r.status = 0) ∧
    (∀ k f, k + 1 < (serve cfg s fs).consumed → fs[k]? = some f → f.silent cfg = false) :=
  ⟨(serveWith_statuses true cfg s fs).1, (serveWith_statuses true cfg s fs).2,
   fun k f hk hf => serveWith_unregister_last true cfg s fs k f hk hf⟩

/-- **Exactly one**: per frame, `process` yields one reply, or none (`Outcome` holds at most one frame);
a well-formed frame other than Unregister gets one. -/
theorem exactly_one (cfg : Cfg) (s : Srv) (f : Frame) (hp : f.parsable = true) :
    (f.silent cfg = true → (process cfg s f).2 = .close) ∧
    (f.silent cfg = false → ∃ r, (process cfg s f).2 = .reply r) :=
  ⟨fun hu => by rw [process, process_unregister true cfg s f hu], fun hu => process_replies true cfg s f hp hu⟩

/-! ## what a reply carries -/

/-- **Echo.**  A reply carries its request's command, sender context and options, and its session handle --
except the reply to Register Session, whose handle, when the registration succeeds, is not zero. -/
theorem reply_echo (cfg : Cfg) (s : Srv) (f : Frame) (r : ReplyFrame) (h : (process cfg s f).2 = .reply r) :
    r.command = f.command ∧ r.context = f.hdr.context ∧ r.options = f.hdr.options ∧
    (f.isRegister = false → r.session = f.hdr.session) ∧
    (f.isRegister = true → r.status = 0 → r.session ≠ 0) :=
  let e := process_echoes true cfg s f r h
  ⟨e.command, e.context, e.options, e.session, e.handle⟩

/-- **Register Session** succeeds as soon as the random source can deliver a non-zero value: the reply has
status 0, the request's protocol version and options, and a non-zero handle, which the server records. -/
theorem register_handle (cfg : Cfg) (s : Srv) (f : Frame) (proto opts : Nat) (extra : Bytes)
    (hb : f.body = .register proto opts extra) (hf : fits cfg f = true) (x : Nat) (hx : x ∈ s.rand) (h0 : x ≠ 0) :
    ∃ h rest, h ≠ 0 ∧ process cfg s f =
      ({ s with rand := rest, session := some h },
       .reply { echo f 0 (Bytes.le 2 proto ++ Bytes.le 2 opts) with session := h }) := by
  obtain ⟨h, rest, hp⟩ := pickNonzero_some_of_mem hx h0
  refine ⟨h, rest, pickNonzero_ne_zero hp, ?_⟩
  simp [process, processWith_fits _ _ _ _ hf, processBody, hb, hp]

/-- **Unregister Session** returns nothing and ends the session, whatever follows it in the input. -/
theorem unregister_silent (cfg : Cfg) (s : Srv) (f : Frame) (rest : List Frame) (hu : f.silent cfg = true) :
    serve cfg s (f :: rest) = ⟨{ s with session := none }, [], 1, .closed⟩ := by
  simp [serve, serveWith, process_unregister true cfg s f hu]

/-- **One frame on the wire.**  The bytes sent for a reply are a 24-byte header whose length field is the length
of the payload that follows, whose bytes 12..19 are the sender context: exactly one encapsulation frame. -/
theorem reply_is_one_frame (r : ReplyFrame) (hc : r.context.length = 8) :
    r.encode.length = 24 + r.payload.length ∧
    (r.encode.drop 2).take 2 = Bytes.le 2 r.payload.length ∧
    (r.encode.drop 12).take 8 = r.context ∧
    r.encode.drop 24 = r.payload := by
  have l2 : ∀ n, (Bytes.le 2 n).length = 2 := fun n => Logix.le_length 2 n
  have l4 : ∀ n, (Bytes.le 4 n).length = 4 := fun n => Logix.le_length 4 n
  have e1 : r.encode = Bytes.le 2 r.command ++ (Bytes.le 2 r.payload.length ++
      (Bytes.le 4 r.session ++ Bytes.le 4 r.status ++ r.context ++ Bytes.le 4 r.options ++ r.payload)) := by
    simp [ReplyFrame.encode]
  have e2 : r.encode = (Bytes.le 2 r.command ++ Bytes.le 2 r.payload.length ++ Bytes.le 4 r.session
      ++ Bytes.le 4 r.status) ++ (r.context ++ (Bytes.le 4 r.options ++ r.payload)) := by
    simp [ReplyFrame.encode]
  have e3 : r.encode = (Bytes.le 2 r.command ++ Bytes.le 2 r.payload.length ++ Bytes.le 4 r.session
      ++ Bytes.le 4 r.status ++ r.context ++ Bytes.le 4 r.options) ++ r.payload := by
    simp [ReplyFrame.encode]
  refine ⟨by simp [ReplyFrame.encode, l2, l4, hc]; omega, ?_, ?_, ?_⟩
  · rw [e1, List.drop_left' (l2 _), List.take_left' (l2 _)]
  · rw [e2, List.drop_left' (by simp [l2, l4]), List.take_left' hc]
  · rw [e3, List.drop_left' (by simp [l2, l4, hc])]

/-- the reply to a request with an 8-octet sender context has one -/
theorem reply_context_length (cfg : Cfg) (s : Srv) (f : Frame) (r : ReplyFrame)
    (h : (process cfg s f).2 = .reply r) (hc : f.hdr.context.length = 8) : r.context.length = 8 := by
  rw [(reply_echo cfg s f r h).2.1]; exact hc

/-! ## supported services: reply bit inside the same framing -/

/-- the request can be delivered: acceptable route path, and the Unconnected Send (if any) is addressed to a
Connection Manager.  (The request's own path need not designate anything that exists: an unknown Tag or Object is
answered by the Message Router with a CIP failure status inside a normal reply -- /repo e94e54f.) -/
def routable (cfg : Cfg) (w : Wrap) : Bool :=
  routeAccepts cfg.route w && usendToCM w

/-- **Service bit.**  A routable request whose reply can be produced is answered by one frame with the request's
own status field (0), whose payload is the request's interface handle and timeout followed by the item list
[null address, unconnected data], and the data item starts with the request's service code with bit 0x80 set. -/
theorem service_bit (cfg : Cfg) (s : Srv) (f : Frame) (u : Bool) (i t : Nat) (w : Wrap) (r : Req) (raw : Bytes)
    (d' : Dev) (bs : Bytes) (hb : f.body = .send u i t w (.req r raw))
    (hf : fits cfg f = true) (hl : routedVia cfg w = none) (hr : routable cfg w = true)
    (he : execReq s.refusing s.dev r = (d', some bs)) :
    process cfg s f = ({ s with dev := d' },
      .reply (echo f f.hdr.status (Bytes.le 4 i ++ Bytes.le 2 t ++ cpfEncode [(0, []), (Generated.cpfUnconnected, bs)])))
    ∧ bs.head? = some (reqService r ||| 0x80) := by
  simp only [routable, Bool.and_eq_true] at hr
  obtain ⟨h1, h2⟩ := hr
  refine ⟨?_, execReq_head he⟩
  simp [process, processWith_fits _ _ _ _ hf, processBody, hb, hl, h1, h2, cmServe, cmRequest, he, sendFraming]

/-- **Unsupported or unroutable.**  A SendRRData request that cannot be delivered (refused route path, Unconnected
Send to something that is not a Connection Manager), whose service no Object parses, or
whose reply cannot be produced, is answered by exactly one frame: no payload, non-zero status, same command,
context, session handle and options -- and the session ends there. -/
theorem unsupported_nonzero (cfg : Cfg) (s : Srv) (f : Frame) (u : Bool) (i t : Nat) (w : Wrap) (c : Cip)
    (rest : List Frame) (hb : f.body = .send u i t w c) (hf : fits cfg f = true) (hl : routedVia cfg w = none)
    (h : routable cfg w = false ∨ (∃ code p raw, c = .unknown code p raw)
          ∨ (∃ r raw, c = .req r raw ∧ (execReq s.refusing s.dev r).2 = none)) :
    (process cfg s f).2 = .reply (echo f (failStatus f.hdr.status) []) ∧
    failStatus f.hdr.status ≠ 0 ∧
    (serve cfg s (f :: rest)).replies = [echo f (failStatus f.hdr.status) []] ∧
    (serve cfg s (f :: rest)).consumed = 1 ∧ (serve cfg s (f :: rest)).end = .closed := by
  have hne := failStatus_ne_zero f.hdr.status
  have key : (process cfg s f).2 = .reply (echo f (failStatus f.hdr.status) []) := by
    simp only [process, processWith_fits _ _ _ _ hf, processBody, hb, hl, Bool.not_true, Bool.false_and, Bool.false_eq_true, ite_false]
    by_cases h1 : routeAccepts cfg.route w = true
    · by_cases h2 : usendToCM w = true
      · simp only [h1, h2, Bool.not_true, Bool.false_eq_true, ite_false]
        rcases h with h | ⟨code, p, raw, rfl⟩ | ⟨r, raw, rfl, he⟩
        · simp [routable, h1, h2] at h
        · simp [cmServe, cmRequest, refuse]
        · simp only [cmServe, cmRequest]
          cases hx : execReq s.refusing s.dev r with
          | mk d' o =>
            rw [hx] at he
            simp only at he
            subst he
            simp [refuse]
      · simp [h1, h2, refuse]
    · simp [h1, refuse]
  refine ⟨key, hne, ?_⟩
  have hpe : processWith true cfg s f = ((processWith true cfg s f).1, .reply (echo f (failStatus f.hdr.status) [])) := by
    have := key
    simp only [process] at this
    rw [← this]
  simp only [serve]
  rw [serveWith, hpe]
  simp [echo, hne]

/-- **Failing tag requests are still answered in full.**  On a well-formed device (`Dev.WF`, the invariant of C05)
a routable Read/Write Tag [Fragmented] request -- valid, or failing with any CIP status: unknown Tag or Object
(0x05), unknown attribute, range, type mismatch -- is always answered by the full frame of `service_bit` (its reply can always be produced), and the
device stays well-formed, so the same holds for every later request of the session. -/
theorem tag_request_answered (cfg : Cfg) (s : Srv) (hwf : s.dev.WF) (f : Frame) (u : Bool) (i t : Nat) (w : Wrap)
    (sreq : Simple) (raw : Bytes) (hs : isTagService sreq = true)
    (hb : f.body = .send u i t w (.req (.simple sreq) raw)) (hf : fits cfg f = true)
    (hl : routedVia cfg w = none) (hr : routable cfg w = true) :
    ∃ bs, (process cfg s f).2 = .reply (echo f f.hdr.status (sendFraming i t bs))
      ∧ bs.head? = some (simpleService sreq ||| 0x80) ∧ (process cfg s f).1.dev.WF := by
  obtain ⟨hwf', bs0, hbs⟩ := execSimple_preserves_wf_tag s.dev hwf sreq (by cases sreq <;> simp_all [isTagService])
  have he0 : exec s.dev (.simple sreq) = ((execSimple s.dev sreq).1, some bs0) := by
    simp only [exec, hbs]
  -- with or without refusing Attributes: a reply is produced, and the device is the one `exec` leaves or unchanged
  have key : ∃ d' bs, execReq s.refusing s.dev (.simple sreq) = (d', some bs) ∧ d'.WF := by
    rcases execReq_cases s.refusing s.dev (.simple sreq) with h | ⟨h1, bs, h2⟩
    · exact ⟨_, bs0, by rw [h, he0], hwf'⟩
    · refine ⟨s.dev, bs, ?_, hwf⟩
      exact Prod.ext h1 h2
  obtain ⟨d', bs, he, hwfd⟩ := key
  obtain ⟨h1, h2⟩ := service_bit cfg s f u i t w (.simple sreq) raw d' bs hb hf hl hr he
  refine ⟨bs, ?_, h2, ?_⟩
  · rw [h1]; rfl
  · rw [h1]; exact hwfd

/-- **An Attribute that refuses the store.**  A Write Tag [Fragmented] that is valid in every respect, to an Attribute
whose data store raises on assignment, is answered in full: service|0x80, CIP status 0xFF with extended status
0x2105, encapsulation status as in the request -- and the device is unchanged. -/
theorem refused_store_answered (cfg : Cfg) (s : Srv) (f : Frame) (u : Bool) (i t : Nat) (w : Wrap) (r : Req)
    (raw : Bytes) (addr : Nat × Nat × Nat) (d' : Dev) (bs : Bytes)
    (hb : f.body = .send u i t w (.req r raw)) (hf : fits cfg f = true)
    (hl : routedVia cfg w = none) (hr : routable cfg w = true)
    (ht : writeTarget s.dev r = some addr) (hm : s.refusing.contains addr = true)
    (he : exec s.dev r = (d', some bs)) (h0 : bs.getD 2 1 = 0) :
    process cfg s f = (s, .reply (echo f f.hdr.status
        (sendFraming i t ([reqService r + 128, 0, 255, 1, 0x05, 0x21])))) := by
  have hx : execReq s.refusing s.dev r = (s.dev, some [reqService r + 128, 0, 255, 1, 0x05, 0x21]) := by
    have hm' : addr ∈ s.refusing := by simpa using hm
    have h0' : bs[2]?.getD 1 = 0 := by simpa [List.getD] using h0
    simp [execReq, ht, hm', he, h0', encodeReply, errReply, encodeStatus, Bytes.le]
  obtain ⟨h1, _⟩ := service_bit cfg s f u i t w r raw s.dev _ hb hf hl hr hx
  rw [h1]
  simp [sendFraming]

/-! ## the Connection Manager's own services, and the request size limit -/

/-- **[Large] Forward Open and Forward Close are always answered with their own service code.**  Whatever the
parameters, whatever the Connection Manager already knows (a refused Forward Open is a reply with CIP status
0x08), a routable request gets one full frame whose data item starts with the request's service code with bit 0x80
set: 0x54 -> 0xd4, 0x5b -> 0xdb, 0x4e -> 0xce. -/
theorem cm_request_answered (cfg : Cfg) (s : Srv) (f : Frame) (u : Bool) (i t : Nat) (w : Wrap) (r : CmReq)
    (raw : Bytes) (hb : f.body = .send u i t w (.cm r raw)) (hf : fits cfg f = true)
    (hl : routedVia cfg w = none) (hr : routable cfg w = true) :
    ∃ bs, (process cfg s f).2 = .reply (echo f f.hdr.status (sendFraming i t bs))
      ∧ bs.head? = some (Cip.service (.cm r raw) ||| 0x80) := by
  simp only [routable, Bool.and_eq_true] at hr
  obtain ⟨h1, h2⟩ := hr
  refine ⟨(execCm s r).2, ?_, execCm_head s r raw⟩
  simp [process, processWith_fits _ _ _ _ hf, processBody, hb, hl, h1, h2, cmServe]

/-- **Over the size limit.**  A well-formed frame whose payload exceeds the configured limit is answered by exactly
one header-only frame with the non-zero status 0x65, and the session ends; a frame of *exactly* the permitted size
is within the limit (`fits`), and every theorem above applies to it. -/
theorem oversize_refused (cfg : Cfg) (s : Srv) (f : Frame) (rest : List Frame) (hp : f.parsable = true)
    (hf : fits cfg f = false) :
    process cfg s f = (s, .reply (echo f sizeFailStatus [])) ∧ sizeFailStatus ≠ 0 ∧
    serve cfg s (f :: rest) = ⟨s, [echo f sizeFailStatus []], 1, .closed⟩ := by
  have h1 := process_oversize true cfg s f hp hf
  refine ⟨h1, sizeFailStatus_ne_zero, ?_⟩
  simp only [serve]
  rw [serveWith, h1]
  simp [echo, sizeFailStatus_ne_zero]

theorem fits_iff (cfg : Cfg) (f : Frame) :
    fits cfg f = true ↔ ∀ n, cfg.size = some n → f.hdr.length ≤ n := by
  unfold fits
  cases cfg.size <;> simp

/-! ## requests forwarded through the routing table -/

/-- the forwarding UCMM has, or can get, a registered connection to the route's device -/
def connAvailable (s : Srv) : Prop := s.routeConn = true ∨ ∃ x ∈ s.rand, x ≠ 0

/-- **Routed service bit.**  A request whose route path starts with a routing-table entry is forwarded; when the
connection to the route's device is there (or can be made) and that device accepts the rest of the route and can
produce the reply, the originator gets one frame, status 0, [null address, unconnected data], the data item
starting with the request's service code with bit 0x80 set -- the reply to *this* request, computed from the
current device state, whatever happened to earlier routed requests. -/
theorem routed_service_bit (cfg : Cfg) (s : Srv) (f : Frame) (u : Bool) (i t : Nat) (w inner : Wrap) (r : Req)
    (raw : Bytes) (d' : Dev) (bs : Bytes) (hb : f.body = .send u i t w (.req r raw)) (hf : fits cfg f = true)
    (hv : routedVia cfg w = some inner) (hc : connAvailable s) (hr : routable cfg inner = true)
    (he : execReq s.refusing s.dev r = (d', some bs)) :
    (process cfg s f).2 = .reply (echo f 0 (sendFraming i t bs)) ∧ bs.head? = some (reqService r ||| 0x80)
    ∧ (process cfg s f).1.dev = d' ∧ (process cfg s f).1.routeConn = true := by
  simp only [routable, Bool.and_eq_true] at hr
  obtain ⟨h1, h2⟩ := hr
  refine ⟨?_, execReq_head he, ?_⟩
  all_goals
    simp only [process, processWith_fits _ _ _ _ hf, processBody, hb, hv]
    by_cases hcn : s.routeConn = true
    · simp [hcn, h1, h2, cmServe, cmRequest, he]
    · have hx : ∃ x ∈ s.rand, x ≠ 0 := by
        rcases hc with h | h
        · exact absurd h hcn
        · exact h
      obtain ⟨x, hxm, hx0⟩ := hx
      obtain ⟨hd, rest, hp⟩ := pickNonzero_some_of_mem hxm hx0
      simp [hcn, hp, h1, h2, cmServe, cmRequest, he]

/-- **A routed request that fails** -- no connection to the route's device can be made, that device refuses the
rest of the route or the send path, no Object parses the service, or the reply cannot be produced -- is answered
by exactly one header-only frame with the non-zero status 0x65, and leaves *no* connection behind: the next routed
request starts from a fresh one. -/
theorem routed_failure_nonzero (cfg : Cfg) (s : Srv) (f : Frame) (u : Bool) (i t : Nat) (w inner : Wrap) (c : Cip)
    (hb : f.body = .send u i t w c) (hf : fits cfg f = true) (hv : routedVia cfg w = some inner)
    (h : ¬ connAvailable s ∨ routable cfg inner = false ∨ (∃ code p raw, c = .unknown code p raw)
          ∨ (∃ r raw, c = .req r raw ∧ (execReq s.refusing s.dev r).2 = none)) :
    (process cfg s f).2 = .reply (echo f routeFailStatus []) ∧ routeFailStatus ≠ 0 ∧
    (process cfg s f).1.routeConn = false := by
  have hne : routeFailStatus ≠ 0 := by decide
  have key : (process cfg s f).2 = .reply (echo f routeFailStatus []) ∧ (process cfg s f).1.routeConn = false := by
    simp only [process, processWith_fits _ _ _ _ hf, processBody, hb, hv]
    by_cases hcn : s.routeConn = true
    · simp only [hcn, ite_true]
      cases h1 : routeAccepts cfg.route inner with
      | false => simp
      | true =>
        cases h2 : usendToCM inner with
        | false => simp
        | true =>
          rcases h with h | h | ⟨code, p, raw, rfl⟩ | ⟨r, raw, rfl, he⟩
          · exact absurd (Or.inl hcn) h
          · simp [routable, h1, h2] at h
          · simp [cmServe, cmRequest]
          · cases hx : execReq s.refusing s.dev r with
            | mk d' o =>
              rw [hx] at he
              simp only at he
              subst he
              simp [cmServe, cmRequest, hx]
    · cases hp : pickNonzero s.rand with
      | none => simp [hcn]
      | some pr =>
        obtain ⟨hd, rst⟩ := pr
        simp only [hcn, Bool.false_eq_true, ite_false]
        cases h1 : routeAccepts cfg.route inner with
        | false => simp
        | true =>
          cases h2 : usendToCM inner with
          | false => simp
          | true =>
            rcases h with h | h | ⟨code, p, raw, rfl⟩ | ⟨r, raw, rfl, he⟩
            · exfalso
              apply h
              right
              exact ⟨hd, pickNonzero_mem hp, pickNonzero_ne_zero hp⟩
            · simp [routable, h1, h2] at h
            · simp [cmServe, cmRequest]
            · cases hx : execReq s.refusing s.dev r with
              | mk d' o =>
                rw [hx] at he
                simp only at he
                subst he
                simp [cmServe, cmRequest, hx]
  exact ⟨key.1, hne, key.2⟩

/-- connections served one after the other: each is `serve` from the state the previous one left, so every theorem
above (they hold for every state) applies to each connection of a sequence -/
theorem serveSessions_cons (cfg : Cfg) (s : Srv) (fs : List Frame) (rest : List (List Frame)) :
    serveSessions cfg s (fs :: rest) =
      serve cfg s fs :: serveSessions cfg
        (if (serve cfg s fs).end == .closed then (serve cfg s fs).srv else { (serve cfg s fs).srv with forwards := [] })
        rest := rfl

/-- a frame whose item list is not [null address, unconnected data] is refused in the same way -/
theorem bad_items_refused (cfg : Cfg) (s : Srv) (f : Frame) (u : Bool) (i t : Nat) (items : List (Nat × Bytes))
    (hb : f.body = .sendItems u i t items) (hf : fits cfg f = true) :
    process cfg s f = (s, .reply (echo f (failStatus f.hdr.status) [])) := by
  simp [process, processWith_fits _ _ _ _ hf, processBody, hb, refuse]

/-- frames outside the grammar (short Register, unknown command) are not answered at all:
`logix.process` raises and `enip_srv_tcp` drops the connection -/
theorem unparsable_not_answered (cfg : Cfg) (s : Srv) (f : Frame) (rest : List Frame) (h : f.parsable = false) :
    serve cfg s (f :: rest) = ⟨s, [], 1, .aborted⟩ := by
  simp [serve, serveWith, process_unparsable true cfg s f h]

/-! ## pipelining -/

/-- **Pipelining is irrelevant.**  Delivering the requests in any batches -- one at a time (write, read the reply,
write the next), a few at a time, or all before any reply is read -- gives the same replies in the same order,
the same number of frames consumed, the same final state and the same way of ending. -/
theorem pipelining_irrelevant (cfg : Cfg) (s : Srv) (batches : List (List Frame)) :
    serveBatches cfg s batches = serve cfg s batches.flatten :=
  serveBatches_flatten cfg s batches

/-- in particular: strictly one request at a time -/
theorem one_at_a_time (cfg : Cfg) (s : Srv) (fs : List Frame) :
    serveBatches cfg s (fs.map fun f => [f]) = serve cfg s fs := by
  rw [pipelining_irrelevant]
  congr 1
  induction fs with
  | nil => rfl
  | cons f fs ih => simp [ih]

/-! ## the defect that was repaired, on the model of the old code -/

def demoDev : Dev :=
  { objs := [{ cls := 2, ins := 1, attrs := [(1, { ty := .int, scalar := false, vals := [.int 7, .int 8, .int 9] })] }],
    symbols := [("a", (2, 1, 1))] }

def demoSrv : Srv := { dev := demoDev, rand := [0, 77] }

/-- Read Tag `A`, 2 elements -/
def readA : Cip := .req (.simple (.readTag [.symbolic "A"] 2)) [0x4c, 0x02, 0x91, 0x01, 0x41, 0x00, 0x02, 0x00]

/-- the witness: that request in an Unconnected Send whose send path is @2/1 (the Message Router) -/
def witness : Frame :=
  { hdr := { session := 5, context := [1, 2, 3, 4, 5, 6, 7, 8] },
    body := .send false 0 5 (.usend 2 1 5 157 [(1, 0)]) readA }

/-- Old code: status 0, and the data item is the *request* (0x4c …), not a reply. -/
theorem old_echoes_request :
    (processOld {} demoSrv witness).2 =
      .reply (echo witness 0 (sendFraming 0 5 [0x4c, 0x02, 0x91, 0x01, 0x41, 0x00, 0x02, 0x00])) := by
  decide +kernel

/-- … so the service-code clause fails for the old code: the first byte of the data item is not 0x4c ||| 0x80 -/
theorem old_violates_service_bit :
    ¬ ∃ bs : Bytes, (processOld {} demoSrv witness).2 = .reply (echo witness 0 (sendFraming 0 5 bs)) ∧
        bs.head? = some (Generated.svcReadTag ||| 0x80) := by
  rintro ⟨bs, h1, h2⟩
  rw [old_echoes_request] at h1
  simp only [Outcome.reply.injEq, echo, ReplyFrame.mk.injEq, true_and] at h1
  have : bs = [0x4c, 0x02, 0x91, 0x01, 0x41, 0x00, 0x02, 0x00] := by
    have h := h1
    simp only [sendFraming, cpfEncode, List.map, List.flatten, List.append_assoc, List.append_cancel_left_eq] at h
    simp only [List.append_nil] at h
    have hl : bs.length = 8 := by
      have := congrArg List.length h1
      simp [sendFraming, cpfEncode, Bytes.le] at this
      omega
    rw [hl] at h
    simp [Bytes.le] at h
    exact h.symm
  subst this
  revert h2
  decide

/-- the repaired code refuses the same frame: one header-only frame, status 0x08 -/
theorem fixed_refuses : (process {} demoSrv witness).2 = .reply (echo witness 8 []) := by decide +kernel

/-! ## non-vacuity -/

def ctx (n : Nat) : Bytes := [n, n, n, n, n, n, n, n]

def regFrame : Frame := { hdr := { session := 0, context := ctx 1 }, body := .register 1 0 [] }
def readFrame : Frame :=
  { hdr := { session := 9, context := ctx 2 }, body := .send false 0 5 (.usend 6 1 5 157 [(1, 0)]) readA }

/-- Register, read, write, List Services, an unknown service, and one more request that is never served -/
def demoFrames : List Frame :=
  [ regFrame, readFrame,
    { hdr := { session := 9, context := ctx 3 },
      body := .send false 0 5 .direct (.req (.simple (.writeTag [.cls 2, .ins 1, .attr 1] 195 1 [5, 0])) []) },
    { hdr := { session := 9, context := ctx 4 }, body := .listServices },
    { hdr := { session := 9, context := ctx 5 }, body := .send false 0 5 .direct (.unknown 0x77 [.cls 2, .ins 1] [0x77]) },
    { hdr := { session := 9, context := ctx 6 }, body := .listIdentity } ]

example : ∀ f ∈ demoFrames, f.parsable = true := by decide

/-- five of the six frames are consumed, five replies in request order, the first with the new handle 77, the
read answered with 0xcc (0x4c ||| 0x80) and the values 7, 8, the last with status 8 and no payload -/
example : (serve {} demoSrv demoFrames).consumed = 5
    ∧ (serve {} demoSrv demoFrames).replies.map (·.context) = [ctx 1, ctx 2, ctx 3, ctx 4, ctx 5]
    ∧ (serve {} demoSrv demoFrames).replies.map (·.session) = [77, 9, 9, 9, 9]
    ∧ (serve {} demoSrv demoFrames).replies.map (·.status) = [0, 0, 0, 0, 8]
    ∧ ((serve {} demoSrv demoFrames).replies.map (·.payload))[1]? =
        some ([0, 0, 0, 0, 5, 0, 2, 0, 0, 0, 0, 0, 0xb2, 0, 10, 0] ++ [0xcc, 0, 0, 0, 0xc3, 0, 7, 0, 8, 0])
    ∧ (serve {} demoSrv demoFrames).end = .closed := by decide +kernel

/-- hypotheses of `service_bit` are satisfiable (the read above) -/
example : routable {} (.usend 6 1 5 157 [(1, 0)]) = true
    ∧ (exec demoDev (.simple (.readTag [.symbolic "A"] 2))).2 = some [0xcc, 0, 0, 0, 0xc3, 0, 7, 0, 8, 0] := by
  decide +kernel

/-- `tag_request_answered` applies to the demo device -/
example : demoDev.WF := by
  intro c i a t h
  unfold Dev.attr? Dev.obj? demoDev at h
  simp only [objGet] at h
  split at h
  · simp only [Option.bind_some, Obj.attr?, attrGet] at h
    split at h
    · simp only [Option.some.injEq] at h; subst h
      refine ⟨?_, by simp⟩
      intro v hv; simp only [List.mem_cons, List.not_mem_nil, or_false] at hv
      rcases hv with rfl | rfl | rfl <;> decide
    · simp at h
  · simp at h

/-- hypotheses of `unsupported_nonzero`: a route path the personality refuses; an Unconnected Send to @2/1 -/
example : routable { route := .only [(1, 0)] } (.usend 6 1 5 157 [(1, 1)]) = false
    ∧ routable {} (.usend 2 1 5 157 []) = false := by decide +kernel

/-- an unknown Tag is a supported service with a CIP failure status: full reply (0xcc, status 0x05 + one extended
status word 0), encapsulation status 0, and the session goes on to serve the next request -/
example : (serve {} demoSrv
      [ { hdr := { session := 9, context := ctx 7 },
          body := .send false 0 5 .direct (.req (.simple (.readTag [.symbolic "nosuch"] 1)) []) }, readFrame ]).replies.map
        (fun r => (r.status, r.payload.drop 16)) = [(0, [0xcc, 0, 5, 1, 0, 0]), (0, [0xcc, 0, 0, 0, 0xc3, 0, 7, 0, 8, 0])] := by
  decide +kernel

/-- routing table {1/9}: a forwarded unknown service fails with 0x65 on one connection; the forwarded Read Tag on the
next connection is answered in full (0xcc …), by a fresh connection to the route's device (handle 78 drawn) -/
example :
    let cfg : Cfg := { routes := [(1, 9)] }
    let bad : Frame := { hdr := { session := 3, context := ctx 1 },
                         body := .send false 0 5 (.usend 6 1 5 157 [(1, 9)]) (.unknown 0x77 [.cls 2, .ins 1] [0x77]) }
    let good : Frame := { hdr := { session := 4, context := ctx 2 },
                          body := .send false 0 5 (.usend 6 1 5 157 [(1, 9)]) readA }
    (serveSessions cfg { demoSrv with rand := [77, 78] } [[bad], [good]]).map
        (fun r => (r.replies.map fun x => (x.status, x.payload.drop 16), r.srv.routeConn, r.srv.rand))
      = [([(0x65, [])], false, [78]), ([(0, [0xcc, 0, 0, 0, 0xc3, 0, 7, 0, 8, 0])], true, [])] := by
  decide +kernel

/-- hypotheses of `routed_service_bit` / `routed_failure_nonzero` are satisfiable -/
example : routedVia { routes := [(1, 9)] } (.usend 6 1 5 157 [(1, 9)]) = some .direct
    ∧ routedVia { routes := [(1, 9)] } (.usend 6 1 5 157 [(1, 9), (1, 0)]) = some (.usend 6 1 5 157 [(1, 0)])
    ∧ connAvailable { demoSrv with rand := [0, 5] } ∧ ¬ connAvailable { demoSrv with rand := [0, 0] } := by
  refine ⟨by decide, by decide, Or.inr ⟨5, by decide, by decide⟩, ?_⟩
  rintro (h | ⟨x, hx, h0⟩)
  · cases h
  · simp only [List.mem_cons, List.not_mem_nil, or_false] at hx
    rcases hx with rfl | rfl <;> exact h0 rfl

/-- a Large Forward Open (point-to-point both ways: the Target draws the O->T connection ID 0x111) is answered by
0xdb; a second one for the same O->T connection ID of a Null connection is refused with CIP status 8 -- still 0xdb -/
def lfo (ncp : Nat) : Frame :=
  { hdr := { session := 9, context := ctx 3 },
    body := .send false 0 5 .direct
      (.cm (.fwdOpen true 5 157 1 2 7 0x1234 0xdeadbeef 1 1000 ncp 2000 ncp 0xa3 [.cls 2, .ins 1]) []) }

example :
    (serve {} { demoSrv with rand := [0x111] } [lfo (0x42000000 + 4000), lfo 4000, lfo 4000]).replies.map
        (fun r => (r.status, (r.payload.drop 16).take 8))
      = [(0, [0xdb, 0, 0, 0, 0x11, 0x01, 0, 0]), (0, [0xdb, 0, 0, 0, 1, 0, 0, 0]), (0, [0xdb, 0, 8, 0, 7, 0, 0x34, 0x12])] := by
  decide +kernel

/-- size limit 4: a Register Session of exactly 4 payload octets is served, one of 5 is refused with 0x65 -/
example :
    (process { size := some 4 } demoSrv
        { hdr := { session := 0, context := ctx 1, length := 4 }, body := .register 1 0 [] }).2 =
        .reply { command := 0x65, session := 77, status := 0, context := ctx 1, options := 0, payload := [1, 0, 0, 0] }
    ∧ (process { size := some 4 } demoSrv
        { hdr := { session := 0, context := ctx 1, length := 5 }, body := .register 1 0 [9] }).2 =
        .reply { command := 0x65, session := 0, status := 0x65, context := ctx 1, options := 0, payload := [] } := by
  decide +kernel

/-- batches: [register, read] then [write] then the rest = all at once (instance of `pipelining_irrelevant`) -/
example : serveBatches {} demoSrv [demoFrames.take 2, [], (demoFrames.drop 2).take 1, demoFrames.drop 3]
    = serve {} demoSrv demoFrames := by
  rw [pipelining_irrelevant]; rfl

/-- Unregister in the middle: nothing is sent for it nor after it -/
example : (serve {} demoSrv [regFrame, { hdr := { session := 1, context := ctx 9 }, body := .unregister [] },
    readFrame]).replies.length = 1 := by decide +kernel

/-- the random source delivering only zeros: Register Session is refused (status 8), handle unchanged -/
example : (process {} { demoSrv with rand := [0, 0] } regFrame).2 =
    .reply { command := 0x65, session := 0, status := 8, context := ctx 1, options := 0, payload := [] } := by
  decide +kernel

end Cpppo.Session
