import Cpppo.Proofs.Frag

/-!
# C04 — Fragmented transfers reassemble exactly and every fragment makes progress

About `Cpppo.Logix.tagAccess` (the model of `Logix.reply_elements` + the slice read / assignment that
Read/Write Tag Fragmented perform), for every tag with fixed-size elements (any positive element size),
every tag length, start index, element count and reply-size budget.

`transfer` is the client loop the property describes: issue Read Tag Fragmented at byte offset
`j * size`, advance `j` by the number of elements received, stop at status 0.
-/
namespace Cpppo.Logix

/-- tag well-formedness needed here: storage length is the attribute's length -/
def Tag.Vector (t : Tag) : Prop := t.scalar = false

/-- One Read Tag Fragmented at element offset `j` of the range `[index, index+n)`. -/
theorem read_fragment (tag : Tag) (hv : tag.Vector) (B index n j : Nat) (hs : 0 < tag.ty.size)
    (hfit : index + n ≤ tag.vals.length) (hj : j < n) :
    tagAccess tag B true index n (j * tag.ty.size) [] =
      .read (if n - j ≤ fragCount B tag.ty.size then 0 else 6)
            ((tag.vals.drop (index + j)).take (min (n - j) (fragCount B tag.ty.size))) := by
  have hlen : tag.len = tag.vals.length := by
    have : tag.scalar = false := hv
    simp [Tag.len, this]
  unfold tagAccess
  rw [hlen, replyElements_read index tag.vals.length n tag.ty.size B _ j hs hfit hj]
  have hq := fragCount_pos B tag.ty.size
  simp only [validSlice, Bool.and_eq_true, decide_eq_true_eq, Bool.not_eq_true', ne_eq, not_true_eq_false,
    ↓reduceIte]
  rw [if_neg (by simp; omega)]
  congr 1
  · by_cases h : n - j ≤ fragCount B tag.ty.size
    · rw [if_pos (by omega), if_pos h]
    · rw [if_neg (by omega), if_neg h]
  · congr 1; omega

/-- **Every fragment carries at least one whole element and at most the budget rounded up to a whole
element; status 6 exactly when more remains, status 0 exactly on the final fragment.** -/
theorem fragment_progress (tag : Tag) (hv : tag.Vector) (B index n j : Nat) (hs : 0 < tag.ty.size)
    (hfit : index + n ≤ tag.vals.length) (hj : j < n) :
    ∃ st vals, tagAccess tag B true index n (j * tag.ty.size) [] = .read st vals
      ∧ 1 ≤ vals.length ∧ vals.length ≤ fragCount B tag.ty.size
      ∧ (st = 6 ↔ j + vals.length < n) ∧ (st = 0 ↔ j + vals.length = n) := by
  refine ⟨_, _, read_fragment tag hv B index n j hs hfit hj, ?_⟩
  have hq := fragCount_pos B tag.ty.size
  simp only [List.length_take, List.length_drop]
  refine ⟨by omega, by omega, ?_, ?_⟩ <;> split <;> omega

/-- the budget bound in bytes: a fragment's payload is less than one element over the budget -/
theorem fragment_bytes_bound (B siz : Nat) (hs : 0 < siz) (hB : 1 ≤ B) :
    fragCount B siz * siz < B + siz := by
  unfold fragCount
  have h := Nat.div_mul_le_self (B + siz - 1) siz
  have h1 : 1 ≤ (B + siz - 1) / siz := (Nat.one_le_div_iff hs).mpr (by omega)
  rw [Nat.max_eq_left h1]
  omega

/-- the client loop: (status, elements) of every fragment -/
def transfer (tag : Tag) (B index n : Nat) : Nat → Nat → List (Nat × List Val)
  | 0, _ => []
  | fuel + 1, j =>
    match tagAccess tag B true index n (j * tag.ty.size) [] with
    | .read st vals => (st, vals) :: (if st = 6 then transfer tag B index n fuel (j + vals.length) else [])
    | _ => []

/-- **The concatenation of the fragments equals exactly the requested elements in order; all but the
last fragment have status 6 and the last has status 0.**  (fuel: any bound ≥ the remaining count) -/
theorem transfer_reassembles (tag : Tag) (hv : tag.Vector) (B index n : Nat) (hs : 0 < tag.ty.size)
    (hfit : index + n ≤ tag.vals.length) (fuel j : Nat) (hj : j < n) (hfuel : n - j ≤ fuel) :
    let frs := transfer tag B index n fuel j
    (frs.map (·.2)).flatten = (tag.vals.drop (index + j)).take (n - j)
    ∧ (∀ fr ∈ frs, 1 ≤ fr.2.length ∧ fr.2.length ≤ fragCount B tag.ty.size)
    ∧ frs.getLast?.map (·.1) = some 0
    ∧ (∀ fr ∈ frs.dropLast, fr.1 = 6) := by
  induction fuel generalizing j with
  | zero => omega
  | succ fuel ih =>
    have hq := fragCount_pos B tag.ty.size
    simp only [transfer, read_fragment tag hv B index n j hs hfit hj]
    by_cases hlast : n - j ≤ fragCount B tag.ty.size
    · -- final fragment
      simp only [if_pos hlast, Nat.zero_ne_add_one, ↓reduceIte, List.map_cons, List.map_nil,
        List.flatten_cons, List.flatten_nil, List.append_nil, List.mem_singleton, forall_eq,
        List.getLast?_singleton, Option.map_some, List.dropLast_singleton, List.not_mem_nil,
        false_imp_iff, implies_true, and_true, List.length_take, List.length_drop]
      refine ⟨by rw [Nat.min_eq_left hlast], by omega, by omega⟩
    · -- more to come
      have hlen : ((tag.vals.drop (index + j)).take (min (n - j) (fragCount B tag.ty.size))).length
          = fragCount B tag.ty.size := by
        simp only [List.length_take, List.length_drop]; omega
      simp only [if_neg hlast, ↓reduceIte, hlen]
      have hj' : j + fragCount B tag.ty.size < n := by omega
      have hf' : n - (j + fragCount B tag.ty.size) ≤ fuel := by omega
      obtain ⟨ih1, ih2, ih3, ih4⟩ := ih (j + fragCount B tag.ty.size) hj' hf'
      have hne : transfer tag B index n fuel (j + fragCount B tag.ty.size) ≠ [] := by
        intro h; rw [h] at ih3; simp at ih3
      refine ⟨?_, ?_, ?_, ?_⟩
      · simp only [List.map_cons, List.flatten_cons, ih1]
        have hsplit : n - j = fragCount B tag.ty.size + (n - (j + fragCount B tag.ty.size)) := by omega
        rw [Nat.min_eq_right (by omega)]
        rw [show index + (j + fragCount B tag.ty.size) = index + j + fragCount B tag.ty.size by omega]
        conv => rhs; rw [hsplit, take_drop_split]
      · intro fr hfr
        simp only [List.mem_cons] at hfr
        rcases hfr with rfl | hfr
        · simp only [hlen]; omega
        · exact ih2 fr hfr
      · rw [List.getLast?_cons_of_ne_nil hne]; exact ih3
      · intro fr hfr
        rw [List.dropLast_cons_of_ne_nil hne] at hfr
        simp only [List.mem_cons] at hfr
        rcases hfr with rfl | hfr
        · rfl
        · exact ih4 fr hfr

/-- **A byte offset inside an element is refused (0xFF / 0x2105), for reads and writes alike.** -/
theorem suboffset_refused (tag : Tag) (B : Nat) (isRead : Bool) (index n off : Nat) (w : List Val)
    (hoff : off % tag.ty.size ≠ 0) (hrd : isRead = true) :
    tagAccess tag B isRead index n off w = .refused := by
  subst hrd
  unfold tagAccess
  split
  · rfl
  · rename_i x hx
    have h := (replyElements_offremains _ _ _ _ _ _ _ _ x hx).1
    have : x.offremains ≠ 0 := by
      rw [h]
      have := Nat.div_add_mod off tag.ty.size
      have h2 : off / tag.ty.size * tag.ty.size = tag.ty.size * (off / tag.ty.size) := Nat.mul_comm _ _
      omega
    split
    · rfl
    · simp [this]

/-- One Write Tag Fragmented carrying `w` at element offset `j`. -/
theorem write_fragment (tag : Tag) (hv : tag.Vector) (B index n j : Nat) (w : List Val)
    (hs : 0 < tag.ty.size) (hfit : index + n ≤ tag.vals.length) (hw : 1 ≤ w.length)
    (hj : j + w.length ≤ n) :
    tagAccess tag B false index n (j * tag.ty.size) w =
      .wrote { tag with vals := spliceAt tag.vals (index + j) w } := by
  have hlen : tag.len = tag.vals.length := by
    have : tag.scalar = false := hv
    simp [Tag.len, this]
  unfold tagAccess
  rw [hlen, replyElements_write index tag.vals.length n tag.ty.size B w.length j hs hfit hw hj]
  simp only [validSlice, Bool.and_eq_true, decide_eq_true_eq, Bool.not_eq_true', Bool.false_eq_true,
    ↓reduceIte]
  rw [if_neg (by simp; omega)]
  have : tag.scalar = false := hv
  simp [this]

/-- a series of Write Tag Fragmented requests, each at the offset where the previous one ended -/
def writeAll (B index n : Nat) : Tag → List (List Val) → Nat → Option Tag
  | tag, [], _ => some tag
  | tag, w :: rest, j =>
    match tagAccess tag B false index n (j * tag.ty.size) w with
    | .wrote t' => writeAll B index n t' rest (j + w.length)
    | _ => none

/-- **A series of Write Tag Fragmented requests whose offsets tile a range stores exactly those values
there and nothing else** (everything outside `[index+j, index+j+total)` is untouched, the length and
the type stay). -/
theorem write_tiling (B index n : Nat) (tag : Tag) (hv : tag.Vector) (hs : 0 < tag.ty.size)
    (hfit : index + n ≤ tag.vals.length) (frs : List (List Val)) (j : Nat)
    (hne : ∀ w ∈ frs, 1 ≤ w.length) (hsum : j + frs.flatten.length ≤ n) :
    writeAll B index n tag frs j = some { tag with vals := spliceAt tag.vals (index + j) frs.flatten } := by
  induction frs generalizing tag j with
  | nil =>
    simp only [writeAll, List.flatten_nil, spliceAt, List.append_nil, List.length_nil, Nat.add_zero,
      List.take_append_drop]
  | cons w rest ih =>
    have hw : 1 ≤ w.length := hne w (by simp)
    simp only [List.flatten_cons, List.length_append] at hsum
    simp only [writeAll, write_fragment tag hv B index n j w hs hfit hw (by omega)]
    have hl : (spliceAt tag.vals (index + j) w).length = tag.vals.length :=
      spliceAt_length _ _ _ (by omega)
    rw [ih { tag with vals := spliceAt tag.vals (index + j) w } hv hs (by simp only [hl]; exact hfit)
      (j + w.length) (fun w' h' => hne w' (by simp [h'])) (by omega)]
    simp only [List.flatten_cons]
    congr 2
    rw [show index + (j + w.length) = index + j + w.length by omega]
    exact spliceAt_spliceAt _ _ _ _ (by omega)

/-- what "nothing else" means element-wise -/
theorem write_tiling_elements (l : List Val) (beg : Nat) (new : List Val) (k : Nat)
    (h : beg + new.length ≤ l.length) :
    (spliceAt l beg new)[k]? = if beg ≤ k ∧ k < beg + new.length then new[k - beg]? else l[k]? :=
  getElem?_spliceAt l beg new k h

/-! ### Non-vacuity: concrete instances (tests, not the claim) -/

def demoTag : Tag := { ty := .int, scalar := false, vals := (List.range 10).map fun k => Val.int (k : Nat) }

example : demoTag.Vector ∧ 0 < demoTag.ty.size ∧ 2 + 7 ≤ demoTag.vals.length :=
  ⟨rfl, by decide, by decide⟩

/-- budget 5 bytes, 2-byte elements: 3 per fragment; elements 2..8 arrive as 3+3+1 -/
example : (transfer demoTag 5 2 7 7 0).map (fun fr => (fr.1, fr.2.length)) = [(6, 3), (6, 3), (0, 1)] := by
  decide +kernel

example : ((transfer demoTag 5 2 7 7 0).map (·.2)).flatten = (demoTag.vals.drop 2).take 7 := by
  decide +kernel

end Cpppo.Logix
