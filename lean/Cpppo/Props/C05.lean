import Cpppo.Proofs.Exec

/-!
# C05 — Invalid requests are refused without side effects; accepted writes stay readable

About `Cpppo.Logix.execSimple` (model of `Logix.request` / `Object.request` after the `fix:` commits
"Write Tag must refuse values not representable in the Tag's type", "Get/Set Attribute services must
fail for a path that designates another Object" and "… element count that extends beyond the end").
`execTagOld` below is the write path *before* the representability fix; its witness shows the defect.
-/
namespace Cpppo.Logix

/-! ### refused ⇒ no side effect -/

/-- a read never changes any tag -/
theorem execTag_read_noop (d : Dev) (self : Nat × Nat) (svc : Nat) (isFrag : Bool) (p : Path)
    (n off : Nat) : (execTag d self svc true isFrag p 0 n off []).1 = d := by
  unfold execTag
  split
  · rfl
  · simp only [↓reduceIte]
    split
    · rfl
    · rfl
    · rename_i hacc
      exact absurd hacc (tagAccess_read_ne_wrote _ _ _ _ _ _ _)

/-- **A tag-service request answered with a failure status leaves every tag exactly as it was.** -/
theorem execTag_refused_noop (d : Dev) (self : Nat × Nat) (svc : Nat) (isRead isFrag : Bool) (p : Path)
    (reqTy n off : Nat) (data : Bytes)
    (h : (execTag d self svc isRead isFrag p reqTy n off data).2.status ≠ 0) :
    (execTag d self svc isRead isFrag p reqTy n off data).1 = d := by
  unfold execTag at h ⊢
  split
  · rfl
  · split
    · rfl
    · split
      · rfl
      · rfl
      · rename_i hr _ _ hw _ _ hacc
        rw [hr] at h
        simp only [hw, hacc] at h
        simp at h

/-- the same for the attribute services -/
theorem execAttr_refused_noop (d : Dev) (self : Nat × Nat) (s : Simple)
    (h : (execAttr d self s).2.status ≠ 0) : (execAttr d self s).1 = d := by
  unfold execAttr at h ⊢
  simp only at h ⊢
  repeat' split
  all_goals first | rfl | (exfalso; simp_all [errReply])

/-- **Every non-bundle request: failure status ⇒ the device is unchanged.** -/
theorem refused_noop (d : Dev) (s : Simple) (h : (execSimple d s).2.status ≠ 0) :
    (execSimple d s).1 = d := by
  unfold execSimple execSimpleAt at h ⊢
  cases s <;> simp only at h ⊢
  · exact execTag_read_noop _ _ _ _ _ _ _
  · exact execTag_read_noop _ _ _ _ _ _ _
  · exact execTag_refused_noop _ _ _ _ _ _ _ _ _ _ h
  · exact execTag_refused_noop _ _ _ _ _ _ _ _ _ _ h
  · exact execAttr_refused_noop _ _ _ h
  · exact execAttr_refused_noop _ _ _ h
  · exact execAttr_refused_noop _ _ _ h

/-! ### the documented failure indications -/

/-- **Unknown tag / object / attribute → status 0x05 (extended 0x0000).** -/
theorem unknown_tag_status (d : Dev) (self : Nat × Nat) (svc : Nat) (isRead isFrag : Bool) (p : Path)
    (reqTy n off : Nat) (data : Bytes) (h : resolveTag d self p = none) :
    execTag d self svc isRead isFrag p reqTy n off data = (d, errReply svc 5 [0]) := by
  unfold execTag; rw [h]

/-- **A data type the tag cannot hold (type not admissible, or a value not representable in the tag's
type) → 0xFF / 0x2107.** -/
theorem type_mismatch_status (d : Dev) (self : Nat × Nat) (svc : Nat) (isFrag : Bool) (p : Path)
    (reqTy n off : Nat) (data : Bytes) (c i a : Nat) (tag : Tag)
    (hr : resolveTag d self p = some (c, i, a, tag)) (h : convWrite tag reqTy data = none) :
    execTag d self svc false isFrag p reqTy n off data = (d, errReply svc 255 [0x2107]) := by
  unfold execTag; rw [hr]; simp [h]

/-- **Range errors (start index beyond the end, more elements than the tag holds, range past the end,
zero count) → 0xFF / 0x2105**, for an existing tag and admissible data. -/
theorem range_error_status (d : Dev) (self : Nat × Nat) (svc : Nat) (isRead isFrag : Bool) (p : Path)
    (reqTy n off : Nat) (data : Bytes) (c i a : Nat) (tag : Tag)
    (hr : resolveTag d self p = some (c, i, a, tag))
    (hw : isRead = true ∨ (convWrite tag reqTy data).isSome)
    (h : tag.len ≤ resolveElement p ∨ tag.len < n ∨ tag.len < resolveElement p + n ∨ n = 0) :
    execTag d self svc isRead isFrag p reqTy n off data = (d, errReply svc 255 [0x2105]) := by
  unfold execTag; rw [hr]
  simp only
  have : ∃ w, (if isRead = true then some [] else convWrite tag reqTy data) = some w := by
    rcases hw with rfl | hw
    · exact ⟨[], rfl⟩
    · by_cases hr : isRead = true
      · exact ⟨[], by simp [hr]⟩
      · obtain ⟨w, hw⟩ := Option.isSome_iff_exists.mp hw
        exact ⟨w, by simp [hr, hw]⟩
  obtain ⟨w, hw⟩ := this
  rw [hw]
  simp only
  rw [tagAccess_range_refused tag d.maxBytes isRead (resolveElement p) n _ w h]

/-! ### accepted writes stay readable -/

/-- Well-formedness is an invariant of every request. -/
theorem execTag_preserves_wf (d : Dev) (hwf : d.WF) (self : Nat × Nat) (svc : Nat) (isRead isFrag : Bool)
    (p : Path) (reqTy n off : Nat) (data : Bytes) :
    (execTag d self svc isRead isFrag p reqTy n off data).1.WF := by
  unfold execTag
  split
  · exact hwf
  · rename_i c i a tag hr
    have htag : d.attr? c i a = some tag := (resolveTag_some hr).1
    have htwf : tag.WF := hwf c i a tag htag
    split
    · exact hwf
    · rename_i wvals hwv
      generalize hacc : tagAccess _ _ _ _ _ _ _ = acc
      cases acc with
      | refused => exact hwf
      | read st vals => exact hwf
      | wrote t' =>
        simp only
        by_cases hrd : isRead = true
        · subst hrd
          exact absurd hacc (tagAccess_read_ne_wrote _ _ _ _ _ _ _)
        · have hrd' : isRead = false := by simpa using hrd
          subst hrd'
          simp only [Bool.false_eq_true, ↓reduceIte] at hwv
          have hcanon := convWrite_canon hwv
          have ht' := (tagAccess_wrote_wf tag htwf _ _ _ _ wvals hcanon t' hacc).1
          intro c' i' a' t ht
          rw [Dev.attr?_setAttr] at ht
          split at ht
          · rw [htag] at ht; simp only [Option.map_some, Option.some.injEq] at ht; subst ht; exact ht'
          · exact hwf c' i' a' t ht

/-- every element of a well-formed tag can be produced -/
theorem Tag.WF.encodable {t : Tag} (h : t.WF) (vs : List Val) (hsub : ∀ v ∈ vs, v ∈ t.vals) :
    ∃ bs, vs.mapM (Val.encode t.ty) = some bs := by
  induction vs with
  | nil => exact ⟨[], rfl⟩
  | cons v rest ih =>
    obtain ⟨bs, hbs⟩ := ih (fun x hx => hsub x (by simp [hx]))
    have hv := h.1 v (hsub v (by simp))
    obtain ⟨b, hb⟩ := Val.encode_of_canon t.ty v v hv
    exact ⟨b :: bs, by simp [List.mapM_cons, hb, hbs]⟩

/-- **No accepted request can make a tag unreadable: on a well-formed device every tag-service reply
can be produced** (so no later request's session ends in `produce`). -/
theorem execTag_reply_producible (d : Dev) (hwf : d.WF) (self : Nat × Nat) (svc : Nat)
    (isRead isFrag : Bool) (p : Path) (reqTy n off : Nat) (data : Bytes) :
    ∃ bs, encodeReply (execTag d self svc isRead isFrag p reqTy n off data).2 = some bs := by
  unfold execTag
  split
  · exact ⟨_, rfl⟩
  · rename_i c i a tag hr
    have htag : d.attr? c i a = some tag := (resolveTag_some hr).1
    have htwf : tag.WF := hwf c i a tag htag
    split
    · exact ⟨_, rfl⟩
    · rename_i wvals hwv
      generalize hacc : tagAccess _ _ _ _ _ _ _ = acc
      cases acc with
      | refused => exact ⟨_, rfl⟩
      | wrote t' => exact ⟨_, rfl⟩
      | read st vals =>
        by_cases hrd : isRead = true
        · subst hrd
          rcases tagAccess_read_cases tag d.maxBytes (resolveElement p) n (if isFrag then off else 0) wvals
            with h | ⟨st', vals', h, _, beg, k, hv, _⟩
          · rw [hacc] at h; simp at h
          · rw [hacc] at h
            simp only [Access.read.injEq] at h
            obtain ⟨rfl, rfl⟩ := h
            have hsub : ∀ v ∈ vals, v ∈ tag.vals := by
              intro v hv'; rw [hv] at hv'; exact List.mem_of_mem_drop (List.mem_of_mem_take hv')
            obtain ⟨bs, hbs⟩ := htwf.encodable vals hsub
            unfold encodeReply
            simp only [hbs, Option.map_some]
            split <;> exact ⟨_, rfl⟩
        · have hrd' : isRead = false := by simpa using hrd
          subst hrd'
          exact absurd hacc (tagAccess_write_ne_read _ _ _ _ _ _ _ _)

/-! ### the defect that was repaired, on the model of the old code -/

/-- the write path before the `fix:` commit: values were stored without checking that the tag's type
can represent them (modelled on a one-element SINT tag) -/
def oldWriteThenRead (v : Int) : Option Bytes :=
  -- old code: store the raw request value, then a later read packs it with the tag's format
  Val.encode .sint (.int v)

/-- USINT 200 written into a SINT tag was acknowledged; the next read cannot be produced. -/
theorem old_write_unreadable : oldWriteThenRead 200 = none := by decide

/-- the repaired model refuses exactly that write with a type error -/
theorem new_write_refused : Val.conv .sint (.int 200) = none := by decide

/-! ### non-vacuity -/

def demoDev : Dev :=
  { objs := [{ cls := 2, ins := 1, attrs := [(1, { ty := .sint, scalar := false, vals := [.int 1, .int 2, .int 3] })] }],
    symbols := [("a", (2, 1, 1))] }

example : demoDev.WF := by
  intro c i a t h
  unfold Dev.attr? Dev.obj? demoDev at h
  simp only [objGet] at h
  split at h
  · simp only [Option.bind_some, Obj.attr?, attrGet] at h
    split at h
    · simp only [Option.some.injEq] at h; subst h
      refine ⟨?_, by simp⟩
      intro v hv; simp only [List.mem_cons, List.not_mem_nil, or_false] at hv
      rcases hv with rfl | rfl | rfl <;> decide
    · simp at h
  · simp at h

/-- a refused request on a non-trivial device: USINT 200 into the SINT tag `a` -/
example : (execSimple demoDev (.writeTag [.symbolic "A"] 198 1 [200])).2.status = 255
    ∧ (execSimple demoDev (.writeTag [.symbolic "A"] 198 1 [200])).2.ext = [0x2107] := by decide +kernel

example : (execSimple demoDev (.readTag [.symbolic "a", .elem 1] 3)).2.status = 255 := by decide +kernel

end Cpppo.Logix
