import Cpppo.Proofs.Serve
import Cpppo.Proofs.Crumbs

/-!
# C08 — Malformed or hostile input cannot hang, crash or corrupt the simulator

Property (given): *for any byte sequence whatsoever sent on a connection the simulator finishes processing in
time bounded by the input length and either replies or closes that connection: it never loops forever, never
takes the whole server down, and never alters a tag except through a complete, well-formed write request.
After any such input the simulator keeps serving new sessions and other existing sessions correctly.*

What is proved here, for **all** byte strings, device states and continuations (`fate`), about
`Cpppo.Serve` (frame splitter `splitFrame`, byte-level decoder `decodeFrame` of the tag services incl. EPATH,
Unconnected Send wrapper and Multiple Service Packet, the stream loop `serve`, reply frames) on top of
`Cpppo.Logix.exec`:

* bounded work / progress: `serve_progress`, `serve_needs_no_fuel`, `parse_tree_linear`,
  `frame_is_prefix`, `incomplete_frame_no_effect`, `bundle_work_bounded_by_depth`, `work_linear_partial`
* **finding** `nested_bundles_superlinear`: Multiple Service Packets nested in one another make the parsers'
  work quadratic (each level re-parses everything inside it) -- the linear bound holds only without nesting
* state protection: `tags_change_only_by_write` (stream), `frame_change_is_write`, `bad_frame_isolated`,
  `request_change_is_write`, `hostile_stream_no_effect`, `later_session_unaffected`,
  `sized_frame_change_is_write`, `oversize_request_refused_noop` (the `--size` limit)
* datagrams (UDP loop `serveDatagrams`): `datagram_independent`, `hostile_datagram_invisible`,
  `datagram_trailing_bytes_ignored`, `datagram_incomplete_dropped`, `datagram_change_is_write`
* replies: `decoded_frame_is_answered`
* the no-progress detection of the parser engine: `engine_no_progress_stops`

**Partial**: the statement's remaining clauses live in the runtime and are *observed on the real code on every
run* (harness/corr/c08.py), not proved: the real engine's generator steps stay below a fixed linear bound,
only ordinary exceptions leave `logix.process`, the connection's thread ends / its `connections` entry is removed /
the socket is closed, a new session and an already existing one are served correctly afterwards; wall-clock time,
memory and the accept loop of `server_main`.  Frames outside the model's grammar that the code's own parser
accepts (length fields larger than the content, trailing bytes, …) are tied by test: their effect must equal
`exec` applied to the request as the code parsed it, so `request_change_is_write` covers them too.
-/
namespace Cpppo.Serve
open Cpppo.Logix

/-! ### bounded work: every loop consumes input -/

/-- **A frame is a prefix of the stream**: 24 header bytes, exactly `length` payload bytes, and the rest of
the stream untouched (no inner length field can make the frame parser run past the frame). -/
theorem frame_is_prefix (bs pl rest : Bytes) (h : Header) (hs : splitFrame bs = some (h, pl, rest)) :
    bs = bs.take 24 ++ pl ++ rest ∧ pl.length = h.len ∧ bs.length = 24 + h.len + rest.length := by
  obtain ⟨h1, h2, h3⟩ := splitFrame_spec hs
  exact ⟨h3, h2, by omega⟩

/-- **An incomplete frame has no effect** (and ends the loop): nothing is processed, no tag changes. -/
theorem incomplete_frame_no_effect (fate : Nat → Bool) (d : Dev) (bs : Bytes) (h : splitFrame bs = none) :
    serve fate d bs = (d, []) := by
  unfold serve
  cases hl : bs.length with
  | zero => rfl
  | succ n => simp only [serveStream, h]

/-- **Progress**: every processed frame takes at least its 24 header bytes off the stream, so a stream of
`n` bytes makes the connection loop run at most `n / 24` times -/
theorem serve_progress (fate : Nat → Bool) (d : Dev) (bs : Bytes) :
    (serve fate d bs).2.length * 24 ≤ bs.length :=
  serveStream_count fate bs.length 0 d bs

/-- **Termination is not owed to the fuel**: any amount of fuel ≥ the stream length gives the same run, i.e.
the loop always ends because the stream is used up or the session ends. -/
theorem serve_needs_no_fuel (fate : Nat → Bool) (d : Dev) (bs : Bytes) (n : Nat) (hn : bs.length ≤ n) :
    serveStream fate n 0 d bs = serve fate d bs := by
  unfold serve
  cases bs with
  | nil => rw [serveStream_nil, serveStream_nil]
  | cons b t =>
    apply serveStream_fuel
    · simp only [List.length_cons] at hn ⊢; omega
    · simp only [List.length_cons]; omega

/-- **The parse of a frame is linear in its length**: the request, its path segments, the members of a bundle
and their path segments -- one pass of a decoder loop each -- number at most half the payload bytes. -/
theorem parse_tree_linear (d : Dev) (h : Header) (pl : Bytes) (dec : Decoded)
    (hd : decodeFrame d h pl = some dec) : 2 * reqNodes dec.req ≤ pl.length := by
  unfold decodeFrame at hd
  split at hd
  · unfold decodePayload at hd
    cases h1 : u32 pl with
    | none => simp [h1] at hd
    | some q1 =>
      obtain ⟨iface, r1⟩ := q1
      simp only [h1] at hd
      cases h2 : u16 r1 with
      | none => simp [h2] at hd
      | some q2 =>
        obtain ⟨timeout, r2⟩ := q2
        simp only [h2] at hd
        split at hd
        · rename_i count t0 l0 t1 l1 body h5
          split at hd
          · cases hb : decodeBody d body with
            | none => simp [hb] at hd
            | some r =>
              simp only [hb, Option.map_some, Option.some.injEq] at hd
              subst hd
              simp only
              have hl := (readU16s_len h5).1
              have := u32_len h1
              have := u16_len h2
              -- the request bytes are a part of the body
              have key : ∃ req : Bytes, decodeReq req = some r ∧ req.length ≤ body.length := by
                unfold decodeBody at hb
                cases body with
                | nil => simp at hb
                | cons b0 r0 =>
                  simp only at hb
                  have tgt : ∀ bs : Bytes, decodeTarget d bs = some r → decodeReq bs = some r := by
                    intro bs hbs
                    unfold decodeTarget at hbs
                    cases hq : decodeReq bs with
                    | none => simp [hq] at hbs
                    | some r' =>
                      simp only [hq] at hbs
                      split at hbs
                      · simp only [Option.some.injEq] at hbs; rw [hbs]
                      · simp at hbs
                  split at hb
                  · cases he : decodeEpath false r0 with
                    | none => simp [he] at hb
                    | some q =>
                      obtain ⟨cm, r1'⟩ := q
                      simp only [he] at hb
                      have hcm := decodeEpath_progress he
                      match r1', hb with
                      | _prio :: _ticks :: r2', hb =>
                        simp only at hb
                        cases hu : u16 r2' with
                        | none => simp [hu] at hb
                        | some q3 =>
                          obtain ⟨n, r3⟩ := q3
                          simp only [hu] at hb
                          have := u16_len hu
                          split at hb
                          · simp at hb
                          · split at hb
                            · split at hb
                              · refine ⟨r3.take n, tgt _ hb, ?_⟩
                                simp only [List.length_take, List.length_cons] at *
                                omega
                              · simp at hb
                            · simp at hb
                  · split at hb
                    · simp at hb
                    · exact ⟨b0 :: r0, tgt _ hb, Nat.le_refl _⟩
              obtain ⟨req, hreq, hlen⟩ := key
              have := decodeReq_nodes hreq
              omega
          · simp at hd
        · simp at hd
  · simp at hd

/-! ### the work of the Multiple Service Packet parser: linear only without nesting (finding) -/

/-- **true complexity of the bundle parser**: a request whose bundles are nested `depth` levels deep is
scanned at most `depth` times -/
theorem bundle_work_bounded_by_depth (depth : Nat) (bs : Bytes) : scanCost depth bs ≤ depth * bs.length :=
  scanCost_le depth bs

/-- **`work_linear_partial`**: for every request of the model's grammar (decidable: `decodeReq bs` succeeds;
in particular no bundle inside a bundle) the parsers consume at most twice the request's bytes, however
much nesting the parser would be prepared to follow.  The full statement -- the same for *every* byte string
-- is false for the code and for this model of it: see `nested_bundles_superlinear`. -/
theorem work_linear_partial (bs : Bytes) (r : Req) (h : decodeReq bs = some r) (fuel : Nat) :
    scanCost fuel bs ≤ 2 * bs.length :=
  scanCost_decoded h fuel

/-- one level of nesting: a Multiple Service Packet addressed to the Message Router with exactly one member -/
def nestHeader : Bytes := [10, 2, 32, 2, 36, 1, 1, 0, 4, 0]

/-- Get Attributes All of the Message Router inside `d` Multiple Service Packets -/
def nest : Nat → Bytes
  | 0 => [1, 2, 32, 2, 36, 1]
  | d + 1 => nestHeader ++ nest d

theorem nest_length (d : Nat) : (nest d).length = 6 + 10 * d := by
  induction d with
  | zero => rfl
  | succ n ih => simp only [nest, nestHeader, List.length_append, List.length_cons, List.length_nil, ih]; omega

theorem nest_ne_nil (d : Nat) : nest d ≠ [] := by
  intro h
  have := nest_length d
  rw [h] at this
  simp only [List.length_nil] at this
  omega

/-- one more level costs one more pass over everything inside -/
theorem scanCost_nest_step (fuel : Nat) (x : Bytes) (hx : x ≠ []) :
    scanCost (fuel + 1) (nestHeader ++ x) = (10 + x.length) + scanCost fuel x := by
  have hlen : 1 ≤ x.length := by
    cases x with
    | nil => exact absurd rfl hx
    | cons a t => simp
  have he : decodeEpath false ([2, 32, 2, 36, 1] ++ ([1, 0, 4, 0] ++ x)) = some ([.cls 2, .ins 1], [1, 0, 4, 0] ++ x) := by
    have ht : takeN 4 ([32, 2, 36, 1] ++ ([1, 0, 4, 0] ++ x)) = some ([32, 2, 36, 1], [1, 0, 4, 0] ++ x) := by
      unfold takeN
      simp only [List.length_append, List.length_cons, List.length_nil]
      rw [if_neg (by omega)]
      rfl
    show decodeEpath false (2 :: ([32, 2, 36, 1] ++ ([1, 0, 4, 0] ++ x))) = _
    unfold decodeEpath
    simp only [Bool.false_eq_true, if_false, ht]
    rfl
  have hm : memberSlices ([1, 0, 4, 0] ++ x) = some [x] := by
    unfold memberSlices
    have : ([1, 0, 4, 0] ++ x : Bytes) = 1 :: 0 :: 4 :: 0 :: x := rfl
    rw [this]
    simp only [u16, readU16s]
    simp only [Nat.reduceMul, Nat.reduceAdd, Nat.mul_zero, Nat.add_zero, Nat.one_ne_zero, if_false,
      Option.map_some, List.head?_cons, List.getLast?_singleton, Option.any_some, List.length_cons,
      true_and, decide_eq_true_eq]
    rw [if_pos ⟨rfl, by omega⟩]
    rfl
  show scanCost (fuel + 1) (10 :: ([2, 32, 2, 36, 1] ++ ([1, 0, 4, 0] ++ x))) = _
  conv_lhs => rw [scanCost]
  have hsvc : (10 : Nat) = Generated.svcMultiple := by decide
  simp only [hsvc, if_true, he, hm, List.map_cons, List.map_nil, List.sum_cons, List.sum_nil, List.length_cons,
    List.length_append, List.length_nil]
  omega

/-- each of the `d` levels scans everything it contains: at least `d/2` passes per byte -/
theorem nest_cost (d : Nat) (fuel : Nat) (hf : d < fuel) :
    d * (nest d).length ≤ 2 * scanCost fuel (nest d) := by
  induction d generalizing fuel with
  | zero => simp
  | succ n ih =>
    cases fuel with
    | zero => omega
    | succ f =>
      have h1 := ih f (by omega)
      have hl := nest_length n
      have hl' := nest_length (n + 1)
      simp only [nest]
      rw [scanCost_nest_step f (nest n) (nest_ne_nil n)]
      have e : (nestHeader ++ nest n).length = (nest n).length + 10 := by
        simp [nestHeader]
      rw [e, Nat.add_mul, Nat.mul_add, Nat.mul_add]
      omega

/-- **Finding (negation of the full statement on the model): the work is not linear in the input.**
For every would-be constant `a, b` there is a request -- `a` … nested Multiple Service Packet headers of 10 bytes
each around one 6-byte request -- whose parsing costs more than `a·len + b` (the code: each nesting level
re-parses all the bytes it contains; measured on the real engine on every run). -/
theorem nested_bundles_superlinear (a b : Nat) :
    ∃ bs : Bytes, a * bs.length + b < scanCost bs.length bs := by
  let d := 2 * a + b + 1
  refine ⟨nest d, ?_⟩
  have hl := nest_length d
  have hc := nest_cost d (nest d).length (by omega)
  -- d·len ≤ 2·cost with d > 2a + b, len ≥ 1
  have h1 : (2 * a + b + 1) * (nest d).length ≤ 2 * scanCost (nest d).length (nest d) := hc
  have h2 : (2 * a + b + 1) * (nest d).length = 2 * (a * (nest d).length) + b * (nest d).length + (nest d).length := by
    rw [Nat.add_mul, Nat.add_mul, Nat.mul_assoc]; omega
  have h3 : b ≤ b * (nest d).length := Nat.le_mul_of_pos_right b (by omega)
  omega

/-! ### state protection -/

/-- **An executed request changes a tag only if it is a write service (Write Tag [Fragmented], Set Attribute
Single — possibly a member of a bundle) that the device acknowledges with status 0.**  Holds for *every*
request, however it was parsed. -/
theorem request_change_is_write (d : Dev) (r : Req) (h : (exec d r).1 ≠ d) : AcceptedWrite d r :=
  exec_change_is_write d r h

/-- **A frame that is not a well-formed request touches nothing** (`Outcome.other`: answered by something
else, refused, or the session ends). -/
theorem bad_frame_isolated (d : Dev) (h : Header) (pl : Bytes) (hd : decodeFrame d h pl = none) :
    serveFrame d h pl = (d, .other) := by
  unfold serveFrame; rw [hd]

/-- one frame: a change of the device ⇒ the frame decodes to an accepted write -/
theorem frame_change_is_write (d : Dev) (h : Header) (pl : Bytes) (hc : (serveFrame d h pl).1 ≠ d) :
    ∃ dec, decodeFrame d h pl = some dec ∧ AcceptedWrite d dec.req := by
  unfold serveFrame at hc
  cases hd : decodeFrame d h pl with
  | none => simp [hd] at hc
  | some dec =>
    simp only [hd] at hc
    exact ⟨dec, rfl, exec_change_is_write d dec.req hc⟩

/-- **A request refused for its size is not executed** (`--size` limit configured): whatever it carries, the
device is unchanged, and the only frames that change a tag are within the limit, decode, and contain an accepted
write. -/
theorem sized_frame_change_is_write (limit : Option Nat) (d : Dev) (h : Header) (pl : Bytes)
    (hc : (serveFrameSized limit d h pl).1 ≠ d) :
    (∀ n, limit = some n → pl.length ≤ n) ∧ ∃ dec, decodeFrame d h pl = some dec ∧ AcceptedWrite d dec.req := by
  unfold serveFrameSized at hc
  cases limit with
  | none => exact ⟨fun n hn => by simp at hn, frame_change_is_write d h pl hc⟩
  | some n =>
    simp only at hc
    split at hc
    · split at hc <;> exact absurd rfl hc
    · rename_i hle
      refine ⟨fun m hm => ?_, frame_change_is_write d h pl hc⟩
      simp only [Option.some.injEq] at hm
      omega

theorem oversize_request_refused_noop (n : Nat) (d : Dev) (h : Header) (pl : Bytes) (hl : n < pl.length) :
    (serveFrameSized (some n) d h pl).1 = d := by
  by_cases hc : (serveFrameSized (some n) d h pl).1 = d
  · exact hc
  · have := (sized_frame_change_is_write (some n) d h pl hc).1 n rfl
    omega

/-- **No byte sequence alters a tag except through a complete, well-formed, accepted write request**:
if serving the stream `bs` (whatever the fate of the frames that are not well-formed requests) leaves the device
different, then at some offset of `bs` a complete frame starts whose payload decodes — every length, count,
offset and size field consistent — to a request containing a write service acknowledged with status 0 in the
state `dk` it was executed in. -/
theorem tags_change_only_by_write (fate : Nat → Bool) (d : Dev) (bs : Bytes) (hc : (serve fate d bs).1 ≠ d) :
    ∃ (off : Nat) (hd : Header) (pl rest : Bytes) (dk : Dev) (dec : Decoded),
      splitFrame (bs.drop off) = some (hd, pl, rest) ∧ decodeFrame dk hd pl = some dec ∧ AcceptedWrite dk dec.req := by
  unfold serve at hc
  generalize bs.length = fuel at hc
  generalize (0 : Nat) = k at hc
  induction fuel generalizing k d bs with
  | zero => simp [serveStream] at hc
  | succ n ih =>
    unfold serveStream at hc
    split at hc
    · exact absurd rfl hc
    · rename_i hd pl rest hs
      dsimp only at hc
      by_cases h1 : (serveFrame d hd pl).1 = d
      · -- this frame changed nothing: the change happens later in the stream
        have hrest : rest = bs.drop (24 + pl.length) := by
          obtain ⟨_, _, e⟩ := splitFrame_spec hs
          have hl : (bs.take 24 ++ pl).length = 24 + pl.length := by
            have := (splitFrame_spec hs).1
            simp only [List.length_append, List.length_take]; omega
          conv_rhs => rw [e]
          rw [List.drop_left' hl]
        repeat' split at hc
        all_goals dsimp only at hc
        all_goals first
          | exact absurd h1 hc
          | (rw [h1] at hc
             obtain ⟨off, hd', pl', rest', dk, dec, h2, h3, h4⟩ := ih (k := k + 1) (d := d) (bs := rest) hc
             refine ⟨24 + pl.length + off, hd', pl', rest', dk, dec, ?_, h3, h4⟩
             rw [← List.drop_drop, ← hrest]
             exact h2)
      · obtain ⟨dec, h2, h3⟩ := frame_change_is_write d hd pl h1
        exact ⟨0, hd, pl, rest, d, dec, by simpa using hs, h2, h3⟩

/-- the contrapositive, as the property words it: a stream in which no frame is a well-formed request leaves
every tag as it was -/
theorem hostile_stream_no_effect (fate : Nat → Bool) (d : Dev) (bs : Bytes)
    (hbad : ∀ off hd pl rest dk, splitFrame (bs.drop off) = some (hd, pl, rest) → decodeFrame dk hd pl = none) :
    (serve fate d bs).1 = d := by
  by_cases h : (serve fate d bs).1 = d
  · exact h
  · obtain ⟨off, hd, pl, rest, dk, dec, h1, h2, _⟩ := tags_change_only_by_write fate d bs h
    rw [hbad off hd pl rest dk h1] at h2
    exact absurd h2 (by simp)

/-- **After hostile input the simulator serves the next session exactly as if that input had never arrived**:
the device is the only state sessions share in the model, and a stream without a well-formed request leaves it
untouched -- so every later stream `next` (a new session, or the rest of an existing one) gets the same replies
and has the same effect. -/
theorem later_session_unaffected (fate fate' : Nat → Bool) (d : Dev) (bs next : Bytes)
    (hbad : ∀ off hd pl rest dk, splitFrame (bs.drop off) = some (hd, pl, rest) → decodeFrame dk hd pl = none) :
    serve fate' (serve fate d bs).1 next = serve fate' d next := by
  rw [hostile_stream_no_effect fate d bs hbad]

/-! ### datagrams (the UDP loop): a datagram is handled on its own -/

/-- **Bytes behind the datagram's first complete frame affect nothing** (not this datagram's handling, and --
there being no carried-over input in `serveDatagrams` -- no other datagram's). -/
theorem datagram_trailing_bytes_ignored (d : Dev) (f x pl : Bytes) (hd : Header)
    (hf : splitFrame f = some (hd, pl, [])) : serveDatagram d (f ++ x) = serveDatagram d f := by
  unfold serveDatagram
  rw [splitFrame_append x hf, hf]

/-- **A datagram that does not hold a complete frame is dropped without effect.** -/
theorem datagram_incomplete_dropped (d : Dev) (dg : Bytes) (h : splitFrame dg = none) :
    serveDatagram d dg = (d, .dropped) := by
  unfold serveDatagram; rw [h]

/-- a datagram changes a tag only if its first frame is a well-formed request with an accepted write -/
theorem datagram_change_is_write (d : Dev) (dg : Bytes) (hc : (serveDatagram d dg).1 ≠ d) :
    ∃ hd pl rest dec, splitFrame dg = some (hd, pl, rest) ∧ decodeFrame d hd pl = some dec
      ∧ AcceptedWrite d dec.req := by
  unfold serveDatagram at hc
  cases hs : splitFrame dg with
  | none => simp [hs] at hc
  | some q =>
    obtain ⟨hd, pl, rest⟩ := q
    simp only [hs] at hc
    obtain ⟨dec, h1, h2⟩ := frame_change_is_write d hd pl hc
    exact ⟨hd, pl, rest, dec, rfl, h1, h2⟩

theorem serveDatagrams_append (d : Dev) (a b : List Bytes) :
    serveDatagrams d (a ++ b) =
      ((serveDatagrams (serveDatagrams d a).1 b).1, (serveDatagrams d a).2 ++ (serveDatagrams (serveDatagrams d a).1 b).2) := by
  induction a generalizing d with
  | nil => simp [serveDatagrams]
  | cons x t ih =>
    simp only [List.cons_append, serveDatagrams]
    rw [ih]

/-- **The handling of a datagram does not depend on the bytes of any other datagram**, except through tags
written by well-formed accepted writes: take any sequence of datagrams `a ++ x :: b` from any peers.  Either `x`
holds a well-formed request with a write the device accepts in the state `x` arrives in, or every other datagram
is handled exactly -- same replies, same effect -- as if `x` had never been sent: the run is the run of
`a ++ b` with `x`'s own outcome put in its place. -/
theorem datagram_independent (d : Dev) (a b : List Bytes) (x : Bytes) :
    (∃ hd pl rest dec, splitFrame x = some (hd, pl, rest)
        ∧ decodeFrame (serveDatagrams d a).1 hd pl = some dec ∧ AcceptedWrite (serveDatagrams d a).1 dec.req)
    ∨ (serveDatagrams d (a ++ x :: b) =
        ((serveDatagrams d (a ++ b)).1,
         (serveDatagrams d a).2 ++ (serveDatagram (serveDatagrams d a).1 x).2 :: (serveDatagrams (serveDatagrams d a).1 b).2)
       ∧ (serveDatagrams d (a ++ b)).2 = (serveDatagrams d a).2 ++ (serveDatagrams (serveDatagrams d a).1 b).2) := by
  by_cases hx : (serveDatagram (serveDatagrams d a).1 x).1 = (serveDatagrams d a).1
  · right
    rw [serveDatagrams_append d a (x :: b), serveDatagrams_append d a b]
    simp only [serveDatagrams, hx, and_self]
  · left
    exact datagram_change_is_write _ x hx

/-- in particular a hostile datagram (no well-formed request in it, whatever the state) is invisible to all
others: it cannot corrupt, delay or suppress a valid request of another peer -/
theorem hostile_datagram_invisible (d : Dev) (a b : List Bytes) (x : Bytes)
    (hbad : ∀ dk hd pl rest, splitFrame x = some (hd, pl, rest) → decodeFrame dk hd pl = none) :
    (serveDatagrams d (a ++ x :: b)).1 = (serveDatagrams d (a ++ b)).1
    ∧ (serveDatagrams d (a ++ x :: b)).2 =
        (serveDatagrams d a).2 ++ (serveDatagram (serveDatagrams d a).1 x).2 :: (serveDatagrams (serveDatagrams d a).1 b).2
    ∧ (serveDatagrams d (a ++ b)).2 = (serveDatagrams d a).2 ++ (serveDatagrams (serveDatagrams d a).1 b).2 := by
  rcases datagram_independent d a b x with ⟨hd, pl, rest, dec, h1, h2, _⟩ | ⟨h1, h2⟩
  · rw [hbad _ hd pl rest h1] at h2
    exact absurd h2 (by simp)
  · rw [h1]
    exact ⟨rfl, rfl, h2⟩

/-! ### replies -/

/-- **A well-formed request is always answered** (one reply frame; the session goes on unless the reply could
not be produced), an ill-formed one never makes the model reply on its behalf. -/
theorem decoded_frame_is_answered (d : Dev) (h : Header) (pl : Bytes) (dec : Decoded)
    (hd : decodeFrame d h pl = some dec) :
    ∃ frame, (serveFrame d h pl).2 = .reply frame (exec d dec.req).2.isSome ∧
      frame = encodeReplyFrame h dec (exec d dec.req).2 := by
  unfold serveFrame; rw [hd]
  exact ⟨_, rfl, rfl⟩

/-! ### the no-progress detection of the parser engine -/

/-- **A machine level that remembers its crumbs `(state, position)` stops**: whatever the transition function
does (consume, push back, loop on epsilon transitions), the loop makes at most `|states|·(|input|+1)`
passes, and given that much fuel it ends by itself — on a missing transition or on seeing a crumb again
(`dfa_base.delegate`'s stasis, `state.run`'s `seen`). -/
theorem engine_no_progress_stops (m : Machine) (input : List Nat) (fuel : Nat) (c : Nat × Nat)
    (hc : c.1 < m.nstates ∧ c.2 ≤ input.length) :
    (runCrumbs m input fuel [c] c).passes ≤ m.nstates * (input.length + 1)
    ∧ (m.nstates * (input.length + 1) < fuel → (runCrumbs m input fuel [c] c).stop ≠ .fuel) := by
  have hn : [c].Nodup := by simp
  have hv : ∀ x ∈ [c], x.1 < m.nstates ∧ x.2 ≤ input.length := by
    intro x hx; simp only [List.mem_singleton] at hx; subst hx; exact hc
  constructor
  · have := runCrumbs_le m input fuel [c] c hn hv
    simp only [List.length_singleton] at this
    omega
  · intro hf
    exact runCrumbs_stops m input fuel [c] c hn hv (by simp only [List.length_singleton]; omega)

/-! ### non-vacuity and witnesses (tests of the definitions, by evaluation) -/

def demoDev : Dev :=
  { objs := [{ cls := 2, ins := 1, attrs := [(1, { ty := .int, scalar := false, vals := [.int 0, .int 0] })] }],
    symbols := [("a", (2, 1, 1))] }

/-- Write Tag `A[1]` := INT 7 in an Unconnected Send in SendRRData (68 bytes) -/
def writeFrame : Bytes :=
  [111, 0, 44, 0, 68, 51, 34, 17, 0, 0, 0, 0, 1, 2, 3, 4, 5, 6, 7, 8, 0, 0, 0, 0, 0, 0, 0, 0, 5, 0, 2, 0, 0, 0, 0, 0,
   178, 0, 28, 0, 82, 2, 32, 6, 36, 1, 5, 157, 14, 0, 77, 3, 145, 1, 65, 0, 40, 1, 195, 0, 1, 0, 7, 0, 1, 0, 1, 0]

/-- the same frame with the CPF item length one too large -/
def badFrame : Bytes :=
  [111, 0, 44, 0, 68, 51, 34, 17, 0, 0, 0, 0, 1, 2, 3, 4, 5, 6, 7, 8, 0, 0, 0, 0, 0, 0, 0, 0, 5, 0, 2, 0, 0, 0, 0, 0,
   178, 0, 29, 0, 82, 2, 32, 6, 36, 1, 5, 157, 14, 0, 77, 3, 145, 1, 65, 0, 40, 1, 195, 0, 1, 0, 7, 0, 1, 0, 1, 0]

/-- the well-formed write is executed and answered: 44-byte reply echoing session and context, status 0 -/
example : serve (fun _ => true) demoDev writeFrame =
    ({ demoDev with objs := [{ cls := 2, ins := 1, attrs := [(1, { ty := .int, scalar := false, vals := [.int 0, .int 7] })] }] },
     [.reply [111, 0, 20, 0, 68, 51, 34, 17, 0, 0, 0, 0, 1, 2, 3, 4, 5, 6, 7, 8, 0, 0, 0, 0, 0, 0, 0, 0, 5, 0, 2, 0,
              0, 0, 0, 0, 178, 0, 4, 0, 205, 0, 0, 0] true]) := by decide +kernel

/-- the inconsistent frame is not a request: nothing changes, and the write behind it still works when the
session survives (`tags_change_only_by_write` then points at offset 68) -/
example : serve (fun _ => true) demoDev badFrame = (demoDev, [.other]) := by decide +kernel

example : (serve (fun _ => true) demoDev (badFrame ++ writeFrame)).1 ≠ demoDev
    ∧ (serve (fun _ => false) demoDev (badFrame ++ writeFrame)).1 = demoDev := by decide +kernel

/-- the hypothesis of `hostile_stream_no_effect` / `later_session_unaffected` holds e.g. for every stream that is
too short to hold a frame (and, by evaluation above, for `badFrame`) -/
example : ∀ off hd pl rest (dk : Dev), splitFrame ((writeFrame.take 20).drop off) = some (hd, pl, rest) →
    decodeFrame dk hd pl = none := by
  intro off hd pl rest dk h
  have h1 := (splitFrame_spec h).1
  have h2 : ((writeFrame.take 20).drop off).length ≤ 20 := by
    simp only [List.length_drop, List.length_take]; omega
  omega

/-- datagrams: a hostile one (`badFrame` + trailing bytes) between a truncated one and the valid write of another
peer: the write is executed and answered exactly as when it is sent alone -/
example : (serveDatagrams demoDev [writeFrame.take 50, badFrame ++ [1, 2, 3], writeFrame ++ [9, 9]]).2
      = [.dropped, .frame .other, (serveDatagram demoDev writeFrame).2]
    ∧ (serveDatagrams demoDev [writeFrame.take 50, badFrame ++ [1, 2, 3], writeFrame ++ [9, 9]]).1
      = (serveDatagram demoDev writeFrame).1 := by decide +kernel

/-- with `--size 40` the 44-byte write is answered with status 0x65 and changes nothing; with `--size 44` it is executed -/
example : (serveFrameSized (some 40) demoDev ⟨111, 44, 287454020, 0, [1, 2, 3, 4, 5, 6, 7, 8], 0⟩ (writeFrame.drop 24))
      = (demoDev, .reply [111, 0, 0, 0, 68, 51, 34, 17, 0x65, 0, 0, 0, 1, 2, 3, 4, 5, 6, 7, 8, 0, 0, 0, 0] false)
    ∧ (serveFrameSized (some 44) demoDev ⟨111, 44, 287454020, 0, [1, 2, 3, 4, 5, 6, 7, 8], 0⟩ (writeFrame.drop 24)).1
      ≠ demoDev := by decide +kernel

/-- a truncated frame: nothing is processed -/
example : serve (fun _ => true) demoDev (writeFrame.take 67) = (demoDev, []) := by decide +kernel

/-- hypotheses of `parse_tree_linear` / `frame_change_is_write` are satisfiable -/
example : ∃ h pl dec, splitFrame writeFrame = some (h, pl, []) ∧ decodeFrame demoDev h pl = some dec
    ∧ dec.req = .simple (.writeTag [.symbolic "A", .elem 1] 195 1 [7, 0]) := by
  refine ⟨⟨111, 44, 287454020, 0, [1, 2, 3, 4, 5, 6, 7, 8], 0⟩, writeFrame.drop 24, ⟨0, 5, _⟩, ?_, ?_, rfl⟩ <;>
    decide +kernel

/-- the witness at depth 3: one 6-byte request in 30 bytes of headers costs 36 + 26 + 16 + 6 = 84 symbols,
and the model's strict grammar does not accept it (a bundle is not a member of a bundle) -/
example : scanCost 10 (nest 3) = 84 ∧ (nest 3).length = 36 ∧ decodeReq (nest 3) = none := by decide +kernel

example : decodeReq (nest 1) = some (.multiple [.cls 2, .ins 1] [.getAttrAll [.cls 2, .ins 1]]) := by decide +kernel

/-- a machine with an epsilon cycle 0 → 1 → 0 that consumes nothing: with the crumb check the loop ends after
two passes (stasis); without it the loop runs for as long as it is given fuel -/
def cycle : Machine := { nstates := 2, step := fun s pos _ => some ((s + 1) % 2, pos) }

example : runCrumbs cycle [65, 66] 1000 [(0, 0)] (0, 0) = ⟨2, .stasis, (1, 0)⟩ := by decide +kernel
example : (runBlind cycle [65, 66] 1000 (0, 0)).stop = .fuel ∧ (runBlind cycle [65, 66] 1000 (0, 0)).passes = 1000 := by
  decide +kernel

end Cpppo.Serve
