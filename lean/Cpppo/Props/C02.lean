import Cpppo.Proofs.Framing
import Cpppo.Generated.Tables

/-!
# C02 — Message framing ignores stream segmentation; an incomplete frame has no effect

Model: `Cpppo.Framing` (Model/Framing.lean).  Three descriptions of the framer are related:

* `frames`  — the specification: cut `24 + <declared length>` bytes off the front of the whole stream;
* `mrun`/`mrunAll` — the shape of the code: one symbol at a time, state = the symbols of the frame in
  progress, fed block by block as `recv` delivers them (this is what the correspondence check runs
  against the real `enip_machine` on a chained source);
* `feed`/`feedAll` — a buffering framer (pending bytes ++ block, re-split).

and a connection (`serveChunks`, the receive loop of `enip_srv_tcp`) is related to its specification
(`serveStream`) for an *arbitrary* per-frame request processor `step : S → RawFrame → S × Option R × Bool`
and clean-close hook `close : S → S` (what the processor does is C03–C07/C06's concern).

All statements are for every stream, every list of blocks (of any sizes, empty blocks included), every
frame list, every processor and every state: no bound anywhere.
-/
namespace Cpppo.Framing
open Cpppo Cpppo.Bytes

/-! ## 1. Segmentation is invisible -/

/-- **The machine, fed any sequence of blocks, delivers exactly the frames of the whole stream (and is left
holding exactly the unfinished remainder).** -/
theorem machine_chunks (cs : List Bytes) : mrunAll [] cs = frames cs.flatten := by
  rw [mrunAll_eq, mrun_eq_frames [] _ split1_nil, List.nil_append]

/-- the same from any point inside a frame: blocks received later complete what was begun earlier -/
theorem machine_chunks_from (acc : Bytes) (h : split1 acc = none) (cs : List Bytes) :
    mrunAll acc cs = frames (acc ++ cs.flatten) := by
  rw [mrunAll_eq, mrun_eq_frames acc _ h]

/-- **Two ways of cutting the same stream give the same messages.** -/
theorem machine_partition_irrelevant (cs ds : List Bytes) (h : cs.flatten = ds.flatten) :
    mrunAll [] cs = mrunAll [] ds := by
  rw [machine_chunks, machine_chunks, h]

/-- byte-at-a-time delivery is one such partition -/
theorem machine_bytewise (bs : Bytes) : mrunAll [] (bs.map fun b => [b]) = frames bs := by
  rw [machine_chunks]; congr 1; induction bs with
  | nil => rfl
  | cons b bs ih => simp [ih]

/-- **The buffering framer: folding `feed` over any blocks = feeding the concatenation.** -/
theorem feed_chunks (fr : Framer) (h : split1 fr.pending = none) (cs : List Bytes) :
    feedAll fr cs = feed fr cs.flatten := by
  induction cs generalizing fr with
  | nil => simp [feedAll, feed, frames_of_none _ h]
  | cons c cs ih =>
    have hres : split1 (feed fr c).1.pending = none := frames_residue _
    simp only [feedAll]
    rw [ih _ hres]
    simp only [feed, List.flatten_cons]
    rw [← List.append_assoc, frames_append (fr.pending ++ c) cs.flatten]

/-- the framer's invariant (no complete frame is ever left pending) is kept by `feed` -/
theorem feed_invariant (fr : Framer) (c : Bytes) : split1 (feed fr c).1.pending = none :=
  frames_residue _

/-- both framers are the same function of the stream -/
theorem feed_eq_machine (cs : List Bytes) :
    feedAll {} cs = ({ pending := (mrunAll [] cs).2 }, (mrunAll [] cs).1) := by
  rw [feed_chunks {} split1_nil, machine_chunks]; simp [feed]

/-! ## 2. Each frame consumes exactly 24 bytes plus its declared length, and nothing of what follows -/

/-- **A well-formed frame at the front of a stream is delivered with identical content; what follows it is
framed as if it stood alone.** -/
theorem frames_cons (f : RawFrame) (h : f.WF) (rest : Bytes) :
    frames (encodeRaw f ++ rest) = (f :: (frames rest).1, (frames rest).2) :=
  frames_cons' f h rest

/-- a stream of frames is cut into exactly those frames, nothing pending -/
theorem frames_encodeAll (fs : List RawFrame) (h : ∀ f ∈ fs, f.WF) : frames (encodeAll fs) = (fs, []) := by
  have := frames_encodeAll_append fs h []
  rw [List.append_nil, frames_of_none [] split1_nil] at this
  simpa using this

/-- **…no matter how the stream is cut into received blocks.** -/
theorem chunks_of_frames (fs : List RawFrame) (h : ∀ f ∈ fs, f.WF) (cs : List Bytes)
    (hcs : cs.flatten = encodeAll fs) : mrunAll [] cs = (fs, []) := by
  rw [machine_chunks, hcs, frames_encodeAll fs h]

/-- every delivered frame has its declared number of payload bytes and accounts for exactly
`24 + length` bytes of the stream: sizes of the frames + the remainder = the stream -/
theorem frames_account (bs : Bytes) :
    ((frames bs).1.map RawFrame.size).sum + (frames bs).2.length = bs.length :=
  frames_length bs

/-- the encoded size of a frame is 24 + its declared length -/
theorem frame_size (f : RawFrame) (h : f.WF) : (encodeRaw f).length = 24 + f.length :=
  encodeRaw_length f h

/-! ## 3. An incomplete frame is no frame -/

/-- **A strict prefix of one frame yields nothing.** -/
theorem frames_strict_prefix (f : RawFrame) (h : f.WF) (p : Bytes) (hp : p <+: encodeRaw f)
    (hne : p ≠ encodeRaw f) : frames p = ([], p) :=
  frames_of_none p (split1_strict_prefix f h p hp hne)

/-- complete frames followed by a strict prefix of a further frame: exactly the complete ones -/
theorem frames_truncated (fs : List RawFrame) (h : ∀ f ∈ fs, f.WF) (f : RawFrame) (hf : f.WF) (p : Bytes)
    (hp : p <+: encodeRaw f) (hne : p ≠ encodeRaw f) : frames (encodeAll fs ++ p) = (fs, p) := by
  rw [frames_encodeAll_append fs h, frames_strict_prefix f hf p hp hne]; simp

/-- **A frame is delivered if and only if its final byte has been delivered**: of a stream of frames cut
after `k` bytes, exactly the frames whose end offset is `≤ k` come out. -/
theorem delivered_iff_final_byte (fs : List RawFrame) (h : ∀ f ∈ fs, f.WF) (k : Nat) :
    (frames ((encodeAll fs).take k)).1 = fs.take (nComplete fs k) ∧
    ∀ i, i < nComplete fs k ↔ i < fs.length ∧ endOffset fs i ≤ k :=
  ⟨by rw [frames_take fs h k], nComplete_iff fs k⟩

/-! ## 4. The connection -/

section
variable {S R : Type} (step : S → RawFrame → S × Option R × Bool) (close : S → S)

/-- **The outcome of a connection (final state, replies sent, how it ended) does not depend on how the
stream was cut into received blocks.** -/
theorem serve_chunks (s : S) (cs : List Bytes) :
    serveChunks step close s cs = serveStream step close s cs.flatten := by
  have := foldl_recv step (Conn.init s) rfl split1_nil cs
  simp only [Conn.init, List.nil_append] at this
  obtain ⟨h1, h2, h3, h4⟩ := this
  unfold serveChunks serveStream finish Conn.init
  simp only [h1, h2, h3]
  by_cases ha : (serveFrames step s (frames cs.flatten).1).2.2 = true
  · simp only [ha, if_true, h4 ha]
  · simp [ha]

/-- **Every time the connection comes back for more input, exactly the frames whose final byte it has been
given have been acted upon** (state and replies are those of the complete frames of the bytes received so
far; a frame is not held back waiting for bytes that follow it). -/
theorem serve_progress (s : S) (cs : List Bytes) (i : Nat) (h : i < cs.length) :
    ∃ c, (Conn.trace step (Conn.init s) cs)[i]? = some c ∧
      c.st = (serveFrames step s (frames (cs.take (i + 1)).flatten).1).1 ∧
      c.replies = (serveFrames step s (frames (cs.take (i + 1)).flatten).1).2.1 := by
  refine ⟨_, trace_getElem step _ cs i h, ?_⟩
  have := foldl_recv step (Conn.init s) rfl split1_nil (cs.take (i + 1))
  simp only [Conn.init, List.nil_append] at this
  exact ⟨this.1, this.2.1⟩

theorem serve_partition_irrelevant (s : S) (cs ds : List Bytes) (h : cs.flatten = ds.flatten) :
    serveChunks step close s cs = serveChunks step close s ds := by
  rw [serve_chunks, serve_chunks, h]

/-- a stream of complete frames: each is handed to the processor, in order, until the processor ends the
session; a clean end calls the close hook -/
theorem serve_complete (s : S) (fs : List RawFrame) (h : ∀ f ∈ fs, f.WF) (cs : List Bytes)
    (hcs : cs.flatten = encodeAll fs) :
    serveChunks step close s cs =
      let t := serveFrames step s fs
      if t.2.2 then (close t.1, t.2.1, Ending.clean) else (t.1, t.2.1, Ending.stopped) := by
  rw [serve_chunks, hcs]; unfold serveStream; rw [frames_encodeAll fs h]; simp [finish]

/-- **A stream that ends inside a frame = the complete frames before it: the unfinished frame is never
handed to the processor (no state change, no reply), and neither is the close hook.** -/
theorem serve_truncated (s : S) (fs : List RawFrame) (h : ∀ f ∈ fs, f.WF) (f : RawFrame) (hf : f.WF)
    (p : Bytes) (hp : p <+: encodeRaw f) (hne : p ≠ encodeRaw f) (hp0 : p ≠ []) (cs : List Bytes)
    (hcs : cs.flatten = encodeAll fs ++ p) :
    serveChunks step close s cs =
      let t := serveFrames step s fs
      (t.1, t.2.1, if t.2.2 then Ending.aborted p.length else Ending.stopped) := by
  rw [serve_chunks, hcs]; unfold serveStream; rw [frames_truncated fs h f hf p hp hne]
  unfold finish
  have : p.isEmpty = false := by cases p <;> simp_all
  simp only [this]
  split <;> simp

/-- state and replies after a truncated stream are those of the complete frames alone -/
theorem truncated_no_effect (s : S) (fs : List RawFrame) (h : ∀ f ∈ fs, f.WF) (f : RawFrame) (hf : f.WF)
    (p : Bytes) (hp : p <+: encodeRaw f) (hne : p ≠ encodeRaw f) (hp0 : p ≠ []) (cs : List Bytes)
    (hcs : cs.flatten = encodeAll fs ++ p) :
    (serveChunks step close s cs).1 = (serveFrames step s fs).1 ∧
    (serveChunks step close s cs).2.1 = (serveFrames step s fs).2.1 := by
  rw [serve_truncated step close s fs h f hf p hp hne hp0 cs hcs]; simp

/-- **Acted upon iff the final byte was delivered**: a request stream cut after `k` bytes (in whatever
blocks): the processor sees exactly the frames that end within the first `k` bytes. -/
theorem serve_cut (s : S) (fs : List RawFrame) (h : ∀ f ∈ fs, f.WF) (k : Nat) (cs : List Bytes)
    (hcs : cs.flatten = (encodeAll fs).take k) :
    serveChunks step close s cs =
      finish close (serveFrames step s (fs.take (nComplete fs k)))
        ((encodeAll (fs.drop (nComplete fs k))).take (k - sizeAll (fs.take (nComplete fs k)))) := by
  rw [serve_chunks, hcs]; unfold serveStream; rw [frames_take fs h k]

/-- **Another session served afterwards starts from the state the complete frames left** (a connection
that died inside a frame has not disturbed it). -/
theorem second_session_unaffected (s : S) (fs : List RawFrame) (h : ∀ f ∈ fs, f.WF) (f : RawFrame)
    (hf : f.WF) (p : Bytes) (hp : p <+: encodeRaw f) (hne : p ≠ encodeRaw f) (hp0 : p ≠ [])
    (cs : List Bytes) (hcs : cs.flatten = encodeAll fs ++ p) (ds : List Bytes) :
    serveChunks step close (serveChunks step close s cs).1 ds =
      serveChunks step close (serveFrames step s fs).1 ds := by
  rw [(truncated_no_effect step close s fs h f hf p hp hne hp0 cs hcs).1]

end

/-! ## 5. Non-vacuity: the hypotheses are satisfiable, the definitions compute what is claimed -/

/-- a Register Session request and a 10-byte SendRRData-like frame -/
def exReg : RawFrame :=
  { command := 0x65, length := 4, session := 0, status := 0, context := [0, 0, 0, 0, 0, 0, 0, 0],
    options := 0, payload := [1, 0, 0, 0] }
def exData : RawFrame :=
  { command := 0x6f, length := 10, session := 0x11020101, status := 0, context := [97, 98, 99, 100, 101, 102, 103, 104],
    options := 0, payload := [1, 2, 3, 4, 5, 6, 7, 8, 9, 10] }
def exNop : RawFrame :=
  { command := 0, length := 0, session := 0, status := 0, context := [9, 9, 9, 9, 9, 9, 9, 9], options := 7,
    payload := [] }

example : exReg.WF ∧ exData.WF ∧ exNop.WF := by decide
example : (encodeRaw exReg).length = 28 := by decide

/-- the machine on a stream cut inside the length field, inside the header, and with two frames in one block -/
example : mrunAll [] [(encodeRaw exReg).take 3, (encodeRaw exReg).drop 3 ++ encodeRaw exData ++ (encodeRaw exNop).take 11,
                      (encodeRaw exNop).drop 11] = ([exReg, exData, exNop], []) := by decide +kernel

/-- a stream that ends one byte short -/
example : mrunAll [] [encodeRaw exReg ++ (encodeRaw exData).take 33] = ([exReg], (encodeRaw exData).take 33) := by
  decide +kernel

example : (encodeRaw exData).take 33 <+: encodeRaw exData ∧ (encodeRaw exData).take 33 ≠ encodeRaw exData ∧
    (encodeRaw exData).take 33 ≠ [] := by
  refine ⟨List.take_prefix _ _, by decide, by decide⟩

/-- a counting processor: state = number of frames seen; replies with the index; stops on command 0x66 -/
def exStep (n : Nat) (f : RawFrame) : Nat × Option Nat × Bool :=
  if f.command = 0x66 then (n + 1, none, false) else (n + 1, some n, true)

example : serveChunks exStep (· + 100) 0 [encodeRaw exReg ++ (encodeRaw exData).take 33] =
    (1, [0], Ending.aborted 33) := by decide +kernel
example : serveChunks exStep (· + 100) 0 [encodeRaw exReg, encodeRaw exData] =
    (102, [0, 1], Ending.clean) := by decide +kernel
example : nComplete [exReg, exData, exNop] 61 = 1 ∧ nComplete [exReg, exData, exNop] 62 = 2 ∧
    endOffset [exReg, exData, exNop] 1 = 62 := by decide

/-- the well-formedness hypothesis is needed: a frame whose declared length differs from its payload is not
re-framed as itself (the framer believes the declared length) -/
theorem wf_needed :
    let f : RawFrame := { exReg with length := 2 }
    ¬ f.WF ∧ (frames (encodeRaw f)).1 ≠ [f] := by decide +kernel

/-! ## 6. Tie to the extracted state graphs of the live `enip_header` / `enip_machine` -/

/-- the chain of header states in the source is the layout the model decodes -/
theorem tie_header_chain : Generated.enipHeaderChain = headerLayout := by decide

/-- … every struct field as wide as its struct format says, integers little-endian, the context raw octets -/
theorem tie_header_formats :
    Generated.enipHeaderFormats = ["<H", "<H", "<I", "<I", "octets", "<I"] ∧
    Generated.enipHeaderCalcsizes = headerLayout.map (·.2) := by decide

/-- the layout is 2+2+4+4+8+4 = 24 bytes with the length field at offset 2, width 2, and the other
fields where `parseFrame` reads them -/
theorem tie_header_offsets :
    layoutSize headerLayout = headerSize ∧ headerSize = 24 ∧
    offsetOf "command" headerLayout = some 0 ∧
    offsetOf "length" headerLayout = some lengthOffset ∧ (headerLayout.lookup "length") = some lengthWidth ∧
    offsetOf "session_handle" headerLayout = some 4 ∧ offsetOf "status" headerLayout = some 8 ∧
    offsetOf "sender_context" headerLayout = some 12 ∧ offsetOf "options" headerLayout = some 20 := by decide

/-- all-or-nothing header: the initial state is a terminal no-op, every edge of the chain needs a symbol
(no no-input edge that could be skipped when nothing is available), no branching, and only the last
field is terminal -/
theorem tie_header_all_or_nothing :
    Generated.enipHeaderEmptyTerminal = true ∧ Generated.enipHeaderBranching = false ∧
    Generated.enipHeaderEdgeKinds = List.replicate 6 "any" ∧
    Generated.enipHeaderTerminals = [false, false, false, false, false, true] ∧
    Generated.enipHeaderOwnContext = "" ∧ Generated.enipMachineInitialIsHeader = true := by decide

/-- the payload: a single no-input edge from the header to a terminal `octets` repeated `.length` times,
in the same context as the header (so `.length` is the header's length field), with nothing after it -/
theorem tie_payload :
    Generated.enipPayloadEdges = 1 ∧ Generated.enipPayloadEdgeKind = "non" ∧
    Generated.enipPayloadRepeat = ".length" ∧ Generated.enipPayloadIsOctets = true ∧
    Generated.enipPayloadTerminal = true ∧ Generated.enipPayloadOutEdges = 0 ∧
    Generated.enipPayloadContext = "" := by decide

end Cpppo.Framing
