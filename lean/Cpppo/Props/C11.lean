import Cpppo.Proofs.Rx
import Cpppo.Proofs.Regex
import Cpppo.Proofs.Bisim

/-!
# C11 — Regular-expression machines accept exactly the expression's language

The machine is `rxRun F bytes .fixed` (model of `state.from_regex` + the dfa run, repaired code) for a
greenery fsm `F`; the language is `F.lang`, and — given that `F` accepts exactly the sentences of an
expression `r` (validated per tested expression by the correspondence, `rx.lang`) — `r.lang`, the
standard semantics (Mathlib `Language`; `Rx.matches'_toRE` ties it to `RegularExpression.matches'`).

* `rx_longest_live_prefix`, `rx_accept_iff`, `rx_reject_not_absorb`, `rx_never_refused` — for every
  well-formed reduced fsm and every input: what is consumed is the longest prefix that can still be
  extended to a sentence; acceptance iff it is a sentence of length ≥ 1; the next symbol is not absorbed.
* `live_iff_extendable` / `live_iff_extendable_cert` — cpppo's local dead-state test is exact.
* `regex_machine_correct` — the machine equals the specification run `specRun r` of the expression;
  `specRun_spec` says what that is in terms of `r.lang`; `rmatch_iff_matches'` is the Mathlib tie.
* `regex_machine_correct_cert` — the same with the hypothesis on the languages replaced by a decidable
  bisimulation certificate (`isBisim`, sound by `isBisim_sound`); `greenery_fsm_witness`: greenery's fsm
  for `(aa+)?` is wrong (known finding).
* `rx_chunk_independent` — chunking is irrelevant (no empty chunk; an empty chunk ends the run).
* `utf8_simulation_partial` — byte machines: on the UTF-8 encoding of a text whose characters are named
  by the alphabet or are single bytes, exactly the encoding of what the character machine consumes is
  consumed, with the same outcome.  `utf8_simulation_fails` refutes the statement without that
  hypothesis (known finding: `é.` on `éê`).
* `old_*` — the code before the `fix:` commit violates the property (two witnesses).
-/
namespace Cpppo.Regex
open Cpppo.Rx

/-- the language of the fsm (greenery's `accepts`) -/
def Fsm.lang (F : Fsm) : Language Sym := {w | F.accepts w = true}

theorem Fsm.mem_lang (F : Fsm) (w : List Sym) : w ∈ F.lang ↔ F.accepts w = true := Iff.rfl

/-- `p` is the longest prefix of `w` that can still be extended to a sentence of `L` -/
def LongestViablePrefix (L : Language Sym) (w p : List Sym) : Prop :=
  p <+: w ∧ Rx.Viable L p ∧ ∀ p', p' <+: w → Rx.Viable L p' → p'.length ≤ p.length

theorem LongestViablePrefix.unique {L : Language Sym} {w p p' : List Sym}
    (h : LongestViablePrefix L w p) (h' : LongestViablePrefix L w p') : p = p' := by
  have l1 := h.2.2 p' h'.1 h'.2.1
  have l2 := h'.2.2 p h.1 h.2.1
  exact List.prefix_of_prefix_length_le h.1 h'.1 l2 |>.eq_of_length (by omega)

theorem Fsm.viable_iff_live (F : Fsm) (p : List Sym) :
    Rx.Viable F.lang p ↔ F.Live (F.run F.init p) := by
  unfold Rx.Viable Fsm.Live
  constructor
  · rintro ⟨v, hv⟩; exact ⟨v, by rw [← F.run_append]; exact hv⟩
  · rintro ⟨v, hv⟩; exact ⟨v, by rw [F.mem_lang, Fsm.accepts, F.run_append]; exact hv⟩

/-! ### the local dead-state test -/

/-- **cpppo's local dead-state test coincides with semantic deadness** (reduced fsm) -/
theorem live_iff_extendable (F : Fsm) (hwf : F.wf = true) (hr : F.Reduced) (hi : F.Live F.init)
    (q : Nat) (hq : F.inMap q = true) : F.dead q = false ↔ ∃ v, F.final (F.run q v) = true := by
  have := F.deadExact_of_reduced (F.wf_WF hwf) hr hi q hq
  constructor
  · intro hd; exact Classical.byContradiction fun hn => by rw [this.mpr hn] at hd; exact absurd hd (by decide)
  · intro hl; cases hd : F.dead q with
    | false => rfl
    | true => exact absurd hl (this.mp hd)

/-- the same from the decidable certificate the driver evaluates for every tested fsm -/
theorem live_iff_extendable_cert (F : Fsm) (hwf : F.wf = true) (hc : F.certLive = true)
    (q : Nat) (hq : F.inMap q = true) : F.dead q = false ↔ ∃ v, F.final (F.run q v) = true := by
  have := F.deadExact_of_cert (F.wf_WF hwf) hc q hq
  constructor
  · intro hd; exact Classical.byContradiction fun hn => by rw [this.mpr hn] at hd; exact absurd hd (by decide)
  · intro hl; cases hd : F.dead q with
    | false => rfl
    | true => exact absurd hl (this.mp hd)

theorem Fsm.live_init_of_cert (F : Fsm) (hwf : F.wf = true) (hc : F.certLive = true) : F.Live F.init := by
  have h := F.wf_WF hwf
  have := (F.kept_iff_live (F.deadExact_of_cert h hc) F.init h.init).mp (F.kept_init h)
  exact this

/-! ### machines over characters -/

section
variable (F : Fsm) (hwf : F.wf = true) (hd : F.DeadExact) (hi : F.Live F.init) (w : List Sym)
include hwf hd hi

/-- core statement, under exactness of the dead test -/
theorem rx_longest_core : LongestViablePrefix F.lang w (rxRun F false .fixed w).consumed := by
  have h := F.wf_WF hwf
  rw [rxRun_char F h w]
  obtain ⟨t, ht, he⟩ := F.liveGo_prefix w F.init
  refine ⟨⟨t, ht.symm⟩, ?_, ?_⟩
  · rw [F.viable_iff_live, ← he]
    exact (F.liveGo_live h hd w F.init h.init hi).1
  · rintro p' ⟨t', ht'⟩ hv
    rw [F.viable_iff_live] at hv
    exact F.liveGo_longest h hd w F.init p' t' h.init ht'.symm hv

omit hd hi in
theorem rx_accept_core :
    (rxRun F false .fixed w).outcome = .ok ↔
      (rxRun F false .fixed w).consumed ≠ [] ∧ (rxRun F false .fixed w).consumed ∈ F.lang := by
  have h := F.wf_WF hwf
  rw [rxRun_char F h w]
  obtain ⟨t, _, he⟩ := F.liveGo_prefix w F.init
  simp only [outcomeOf, F.mem_lang, Fsm.accepts, ← he]
  cases hp : (F.liveGo F.init w).1 with
  | nil => simp
  | cons c p => cases hf : F.final (F.liveGo F.init w).2 <;> simp
end

/-- **What is consumed is the longest prefix of the input that can still be extended to a sentence**
(and it is what is stored: `consumed` is both `source.sent` symbols and the `.input` value). -/
theorem rx_longest_live_prefix (F : Fsm) (hwf : F.wf = true) (hr : F.Reduced) (hi : F.Live F.init)
    (w : List Sym) : LongestViablePrefix F.lang w (rxRun F false .fixed w).consumed :=
  rx_longest_core F hwf (F.deadExact_of_reduced (F.wf_WF hwf) hr hi) hi w

/-- **Acceptance iff the consumed prefix has length at least one and is a sentence** (the empty prefix
is never accepted: the initial-state copy is not terminal). -/
theorem rx_accept_iff (F : Fsm) (hwf : F.wf = true) (w : List Sym) :
    (rxRun F false .fixed w).outcome = .ok ↔
      (rxRun F false .fixed w).consumed ≠ [] ∧ (rxRun F false .fixed w).consumed ∈ F.lang :=
  rx_accept_core F hwf w

/-- a machine over characters is never refused, so a run that does not accept ends in `NonTerminal` -/
theorem rx_never_refused (F : Fsm) (hwf : F.wf = true) (w : List Sym) :
    (rxRun F false .fixed w).outcome ≠ .refused := by
  rw [rxRun_char F (F.wf_WF hwf) w]
  unfold outcomeOf; split <;> simp

/-- **A symbol that cannot continue a sentence is left unconsumed** (rejected, not absorbed): the
first symbol after what was consumed makes the prefix inextensible. -/
theorem rx_reject_not_absorb (F : Fsm) (hwf : F.wf = true) (hr : F.Reduced) (hi : F.Live F.init)
    (w : List Sym) (c : Sym) (rest : List Sym)
    (hw : w = (rxRun F false .fixed w).consumed ++ c :: rest) :
    ¬ Rx.Viable F.lang ((rxRun F false .fixed w).consumed ++ [c]) := by
  intro hv
  have := (rx_longest_live_prefix F hwf hr hi w).2.2 _ ⟨rest, by rw [List.append_assoc]; exact hw.symm⟩ hv
  simp only [List.length_append, List.length_singleton] at this
  omega

/-! ### the expression's language -/

/-- **the derivative matcher against Mathlib's semantics**: over any finite alphabet `σ`, the matcher
decides `RegularExpression.matches'` of the expression (with `.` and negated classes expanded over `σ`) -/
theorem rmatch_iff_matches' (σ : List Sym) (r : Rx) (w : List Sym) (hw : ∀ c ∈ w, c ∈ σ) :
    r.rmatch w = true ↔ w ∈ (Rx.toRE σ r).matches' := by
  rw [Rx.rmatch_iff, Rx.matches'_toRE σ r w hw]

/-- **the specification run is the property statement**: longest extensible prefix, accepted iff it is
a non-empty sentence -/
theorem specRun_spec (r : Rx) (hne : r.inhabited = true) (w : List Sym) :
    LongestViablePrefix r.lang w (r.specRun w).consumed ∧
    ((r.specRun w).accepted = true ↔ (r.specRun w).consumed ≠ [] ∧ (r.specRun w).consumed ∈ r.lang) := by
  have hc : (r.specRun w).consumed = (Rx.specGo r w).1 := rfl
  have ha : (r.specRun w).accepted = (!(Rx.specGo r w).1.isEmpty && Rx.nullable (Rx.specGo r w).2) := rfl
  refine ⟨⟨hc ▸ Rx.specGo_prefix r w, ?_, ?_⟩, ?_⟩
  · rw [hc, ← Rx.viable_iff]; exact Rx.specGo_viable r hne w
  · intro p' hp' hv
    rw [hc]
    exact Rx.specGo_longest r w p' hp' ((Rx.viable_iff r p').mpr hv)
  · rw [ha, hc, Rx.specGo_derivs, ← Rx.rmatch_iff]
    unfold Rx.rmatch
    cases (Rx.specGo r w).1 <;> simp

/-- **A machine built from an fsm that accepts exactly the sentences of `r` runs as the specification
of `r` demands**, on every input.  (`hL` is what the correspondence validates for each tested
expression against greenery's fsm; `hc` is evaluated by the driver.) -/
theorem regex_machine_correct (r : Rx) (F : Fsm) (hwf : F.wf = true) (hc : F.certLive = true)
    (hL : ∀ w, F.accepts w = r.rmatch w) (w : List Sym) :
    rxRun F false .fixed w =
      ⟨if (r.specRun w).accepted then .ok else .nonTerminal, (r.specRun w).consumed⟩ := by
  have h := F.wf_WF hwf
  have hd := F.deadExact_of_cert h hc
  have hi := F.live_init_of_cert hwf hc
  have hlang : F.lang = r.lang := by
    ext v; rw [F.mem_lang, hL, Rx.rmatch_iff]
  have hne : r.inhabited = true := by
    obtain ⟨v, hv⟩ := hi
    rw [Rx.inhabited_iff]
    exact ⟨v, by rw [← hlang]; exact hv⟩
  have hs := specRun_spec r hne w
  have h1 := rx_longest_core F hwf hd hi w
  have h2 := rx_accept_core F hwf w
  rw [hlang] at h1 h2
  have hcons : (rxRun F false .fixed w).consumed = (r.specRun w).consumed := h1.unique hs.1
  have hnr := rx_never_refused F hwf w
  rcases hrun : rxRun F false .fixed w with ⟨o, p⟩
  rw [hrun] at hcons h2 hnr
  simp only at hcons h2 hnr
  subst hcons
  simp only [Result.mk.injEq, and_true]
  by_cases ha : (r.specRun w).accepted = true
  · simp only [ha, if_true]; exact h2.mpr (hs.2.mp ha)
  · have : o ≠ .ok := fun ho => ha (hs.2.mpr (h2.mp ho))
    simp only [ha, Bool.false_eq_true, if_false]
    cases o <;> simp_all

/-- **The same under decidable hypotheses only**: `isBisim F r R` (a bisimulation certificate between
the fsm and the iterated simplified derivatives of `r`, found by the driver's search and checked by the
verified `isBisim`) replaces the hypothesis on the languages.  This is what the correspondence evaluates
for every expression of the exhaustive scopes (`rx.lang … 1` answers `ok` only then). -/
theorem regex_machine_correct_cert (r : Rx) (F : Fsm) (hwf : F.wf = true) (hc : F.certLive = true)
    (R : List (Nat × Rx)) (hb : isBisim F r R = true) (w : List Sym) :
    rxRun F false .fixed w =
      ⟨if (r.specRun w).accepted then .ok else .nonTerminal, (r.specRun w).consumed⟩ :=
  regex_machine_correct r F hwf hc (isBisim_sound F r R hb) w

/-- a certificate shows that the fsm's language is the expression's -/
theorem fsm_lang_eq_of_bisim (r : Rx) (F : Fsm) (R : List (Nat × Rx)) (hb : isBisim F r R = true) :
    F.lang = r.lang := by
  ext v; rw [F.mem_lang, isBisim_sound F r R hb, Rx.rmatch_iff]

/-- **Known finding (greenery 2.1)**: for `(aa+)?` greenery builds the fsm of `a*` (its simplification
merges the multipliers `{2,}` and `?` into `*`), which accepts `a`; the expression does not. -/
def fsmAStar : Fsm :=
  { init := 0, finals := [0], map := [(0, [(none, 1), (some 97, 0)]), (1, [(none, 1), (some 97, 1)])] }

theorem greenery_fsm_witness :
    fsmAStar.accepts [97] = true ∧
    (Rx.opt (.cat (.lit 97) (Rx.plus (.lit 97)))).rmatch [97] = false ∧
    rxRun fsmAStar false .fixed [97] = ⟨.ok, [97]⟩ ∧
    (Rx.opt (.cat (.lit 97) (Rx.plus (.lit 97)))).specRun [97] = ⟨[97], false⟩ := by
  refine ⟨?_, ?_, ?_, ?_⟩ <;> decide +kernel

/-! ### chunking -/

/-- **The result does not depend on how the input is chunked** (characters or bytes, either code). -/
theorem rx_chunk_independent (F : Fsm) (bytes : Bool) (v : Variant) (chunks : List (List Sym))
    (hne : ∀ ch ∈ chunks, ch ≠ []) : rxRunChunks F bytes v chunks = rxRun F bytes v chunks.flatten :=
  rxRunChunks_eq F bytes v chunks hne

/-! ### machines over bytes -/

/-- **Byte machines, partial**: if the construction is not refused and every character of the text is
named by the fsm's alphabet or is a single byte, the byte machine consumes exactly the UTF-8 encoding of
what the character machine consumes, with the same outcome.  (So, with the theorems above: the longest
extensible prefix, whole characters only, accepted iff a non-empty sentence.) -/
theorem utf8_simulation_partial (F : Fsm) (hwf : F.wf = true) (hnr : refused F true = false)
    (w : List Sym) (hdom : Utf8Dom F w) :
    rxRun F true .fixed (w.flatMap utf8) =
      ⟨(rxRun F false .fixed w).outcome, (rxRun F false .fixed w).consumed.flatMap utf8⟩ := by
  have h := F.wf_WF hwf
  rw [rxRun_bytes F h hnr w hdom, rxRun_char F h w]

/-- the full statement (no hypothesis on the text) -/
def Utf8SimulationFull : Prop :=
  ∀ (F : Fsm), F.wf = true → refused F true = false → ∀ w : List Sym,
    rxRun F true .fixed (w.flatMap utf8) =
      ⟨(rxRun F false .fixed w).outcome, (rxRun F false .fixed w).consumed.flatMap utf8⟩

/-- greenery's fsm for `é.` (states 1 dead) -/
def fsmEDot : Fsm :=
  { init := 0, finals := [3],
    map := [(0, [(none, 1), (some 233, 2)]), (1, [(none, 1), (some 233, 1)]),
            (2, [(none, 3), (some 233, 3)]), (3, [(none, 1), (some 233, 1)])] }

/-- greenery's fsm for a single symbol `c` -/
def fsmOne (c : Sym) : Fsm :=
  { init := 0, finals := [1],
    map := [(0, [(none, 2), (some c, 1)]), (1, [(none, 2), (some c, 2)]), (2, [(none, 2), (some c, 2)])] }

/-- **Known finding**: `regex_bytes('é.')` on `'éê'` (C3 A9 C3 AA) consumes C3 A9 C3 and fails, although
the character machine accepts `éê`: the wildcard edge is never copied onto the extra states. -/
theorem utf8_finding_witness :
    rxRun fsmEDot true .fixed ([233, 234].flatMap utf8) = ⟨.nonTerminal, [0xC3, 0xA9, 0xC3]⟩ ∧
    rxRun fsmEDot false .fixed [233, 234] = ⟨.ok, [233, 234]⟩ := by
  constructor <;> decide +kernel

theorem utf8_simulation_fails : ¬ Utf8SimulationFull := by
  intro h
  have := h fsmEDot (by decide +kernel) (by decide +kernel) [233, 234]
  rw [utf8_finding_witness.1, utf8_finding_witness.2] at this
  exact absurd this (by decide)

/-! ### the code before the `fix:` commit -/

/-- `regex_bytes('é')` on `'éé'`: the old code consumed the first byte of the second `é` (an edge into a
dead state) and failed; the repaired code accepts the first `é` and leaves the rest. -/
theorem old_consumes_dead_edge :
    rxRun (fsmOne 233) true .old ([233, 233].flatMap utf8) = ⟨.nonTerminal, [0xC3, 0xA9, 0xC3]⟩ ∧
    rxRun (fsmOne 233) true .fixed ([233, 233].flatMap utf8) = ⟨.ok, [0xC3, 0xA9]⟩ := by
  constructor <;> decide +kernel

/-- `regex_bytes('€')` on `'€'`: in the old code the second extra state took the key of the first (the
key of the dropped dead state had been skipped), so the first extra state had no edges and the
three-byte symbol could never be matched. -/
theorem old_three_byte_symbol_unusable :
    rxRun (fsmOne 0x20AC) true .old (utf8 0x20AC) = ⟨.nonTerminal, [0xE2]⟩ ∧
    rxRun (fsmOne 0x20AC) true .fixed (utf8 0x20AC) = ⟨.ok, [0xE2, 0x82, 0xAC]⟩ := by
  constructor <;> decide +kernel

/-! ### non-vacuity -/

/-- greenery's fsm for `ab*` over the alphabet {a, b, anything-else}; state 1 is dead -/
def fsmAB : Fsm :=
  { init := 0, finals := [2],
    map := [(0, [(none, 1), (some 97, 2), (some 98, 1)]), (1, [(none, 1), (some 97, 1), (some 98, 1)]),
            (2, [(none, 1), (some 97, 1), (some 98, 2)])] }

example : fsmAB.wf = true ∧ fsmAB.certLive = true := by decide +kernel
example : rxRun fsmAB false .fixed [97, 98, 98, 99] = ⟨.ok, [97, 98, 98]⟩ := by decide +kernel
example : rxRun fsmAB false .fixed [98] = ⟨.nonTerminal, []⟩ := by decide +kernel
example : (Rx.cat (.lit 97) (.star (.lit 98))).specRun [97, 98, 98, 99] = ⟨[97, 98, 98], true⟩ := by
  decide +kernel
example : rxRunChunks fsmAB false .fixed [[97], [98, 98], [99]] = ⟨.ok, [97, 98, 98]⟩ := by decide +kernel
/-- the certificate search finds a bisimulation for `ab*` and the checker accepts it -/
example : isBisim fsmAB (.cat (.lit 97) (.star (.lit 98))) (explore fsmAB (.cat (.lit 97) (.star (.lit 98))) 50)
    = true := by decide +kernel
/-- … and no certificate exists for greenery's fsm of `(aa+)?` -/
example : isBisim fsmAStar (Rx.opt (.cat (.lit 97) (Rx.plus (.lit 97))))
    (explore fsmAStar (Rx.opt (.cat (.lit 97) (Rx.plus (.lit 97)))) 50) = false := by decide +kernel
/-- the hypotheses of `utf8_simulation_partial` hold for `é.` on the text `éa` -/
example : fsmEDot.wf = true ∧ refused fsmEDot true = false ∧
    (∀ x ∈ [233, 97], x < 128 ∨ fsmEDot.named x = true) := by decide +kernel
example : rxRun fsmEDot true .fixed ([233, 97].flatMap utf8) = ⟨.ok, [0xC3, 0xA9, 97]⟩ := by decide +kernel
/-- the liveness certificate is not vacuous: it fails when a second, unreachable-from-final state is kept -/
example : ({ fsmAB with map := fsmAB.map ++ [(3, [(none, 1), (some 97, 3), (some 98, 3)])] } : Fsm).certLive
    = false := by decide +kernel

end Cpppo.Regex
