import Cpppo.Model.Regex
namespace Cpppo.Regex
/-- placeholder while the framework is wired (replaced by the property theorems) -/
theorem utf8_ascii (c : Nat) (h : c < 128) : utf8 c = [c] := by simp [utf8, h]
end Cpppo.Regex
