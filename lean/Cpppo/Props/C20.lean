import Cpppo.Proofs.Tnet

/-!
# C20 — tnetstring serialisation round-trips and the streaming parser agrees with it

Theorems about the model `Cpppo.Tnet` (`dump`, `parse` mirror `server/tnetstrings.py`; `step`/`feed`/
`feedChunks` mirror `tnet_machine` under `tnet_from` of `server/tnet.py`).

Quantification: every value `v : TVal` (integers of any size, float tokens, booleans, null, byte
strings of any content and length, text of any Unicode scalar values, lists and string-keyed
dictionaries nested to any depth) with `wf v` (decidable: float token has the `str(float)` shape,
text is made of scalar values, dictionary keys are ASCII and distinct); every following data `rest` /
`tail`; every chunking.  Nothing is bounded.
-/
namespace Cpppo.Tnet

/-! ## Serialise / parse round trip -/

/-- **`parse(dump(v) + rest) == (v, rest)`**: parsing a serialised value followed by any further
data returns exactly that value (same constructors = same Python types), and exactly the further
data; for any nesting depth, any container size, any payload bytes. -/
theorem parse_dump (v : TVal) (h : wf v = true) (rest : Bytes) :
    parse (dump v ++ rest) = some (v, rest) := by
  unfold parse
  apply parseF_dump v _ rest h
  have := size_lt_dump v
  simp only [List.length_append]; omega

/-- **`parse(dump(v)) == (v, b'')`: the whole string is consumed.** -/
theorem parse_dump_whole (v : TVal) (h : wf v = true) : parse (dump v) = some (v, []) := by
  simpa using parse_dump v h []

/-- `dump` is injective on well-formed values (an immediate consequence, stated because it is what
"equal value of the same types" needs: two different values never share a serialisation). -/
theorem dump_injective (v w : TVal) (hv : wf v = true) (hw : wf w = true) (h : dump v = dump w) :
    v = w := by
  have h1 := parse_dump_whole v hv
  have h2 := parse_dump_whole w hw
  rw [h, h2] at h1
  simpa using h1.symm

mutual
private theorem encodable_of_wf : ∀ v : TVal, wf v = true → encodable v = true
  | .int _, _ | .float _, _ | .bool _, _ | .null, _ | .bytes _, _ => rfl
  | .text _, h => by simpa [wf, encodable] using h
  | .list vs, h => by simp only [wf] at h; simpa [encodable] using encodableList_of_wf vs h
  | .dict kvs, h => by simp only [wf] at h; simpa [encodable] using encodableDict_of_wf kvs h
private theorem encodableList_of_wf : ∀ vs : TList, wfList vs = true → encodableList vs = true
  | .nil, _ => rfl
  | .cons v vs, h => by
    simp only [wfList, Bool.and_eq_true] at h
    simp [encodableList, encodable_of_wf v h.1, encodableList_of_wf vs h.2]
private theorem encodableDict_of_wf : ∀ kvs : TDict, wfDict kvs = true → encodableDict kvs = true
  | .nil, _ => rfl
  | .cons k v kvs, h => by
    simp only [wfDict, Bool.and_eq_true] at h
    obtain ⟨⟨⟨hk, _⟩, hv⟩, hd⟩ := h
    simp only [encodableDict, Bool.and_eq_true]
    exact ⟨⟨hk, encodable_of_wf v hv⟩, encodableDict_of_wf kvs hd⟩
end

/-- **`dump` does not raise on a well-formed value** (the model's `dump?` is `none` exactly where the
code raises UnicodeEncodeError: surrogate code points in text, non-ASCII dictionary keys). -/
theorem dump_defined (v : TVal) (h : wf v = true) : dump? v = some (dump v) := by
  simp [dump?, encodable_of_wf v h]

/-- **Only the length prefix delimits a payload**: whatever bytes the payload holds (digits, colons,
type tags, a complete tnetstring, ...), `parse_payload` of a framed payload followed by anything
returns that payload, its type byte and the remainder.  No hypothesis on `p`. -/
theorem payload_delimited_by_length (p : Bytes) (t : Nat) (rest : Bytes) :
    parsePayload (frame p t ++ rest) = some (p, t, rest) :=
  parsePayload_frame p t rest

/-- every serialisation is such a frame: decimal length of the payload, `:`, payload, type byte -/
theorem dump_is_frame (v : TVal) : ∃ p t, dump v = frame p t ∧ isType t = true := by
  cases v with
  | int i => exact ⟨_, 35, rfl, by decide⟩
  | float tok => exact ⟨_, 94, rfl, by decide⟩
  | bool b => exact ⟨_, 33, rfl, by decide⟩
  | null => exact ⟨[], 126, by decide, by decide⟩
  | bytes bs => exact ⟨_, 44, rfl, by decide⟩
  | text cps => exact ⟨_, 36, rfl, by decide⟩
  | list vs => exact ⟨dumpList vs, 93, by simp [dump], by decide⟩
  | dict kvs => exact ⟨dumpDict kvs, 125, by simp [dump], by decide⟩

/-! ## The streaming parser -/

/-- the types `tnet_parser.process` converts -/
def streamOk : TVal → Bool
  | .int _ | .bytes _ | .text _ | .null => true
  | _ => false

/-- **Chunk independence**: feeding the blocks one by one is feeding their concatenation; hence two
chunkings of the same bytes give the same messages, the same `sent` counts and the same state. -/
theorem stream_chunking (r : Run) (chunks : List Bytes) :
    feedChunks r chunks = feed r chunks.flatten :=
  feedChunks_flatten r chunks

theorem stream_chunking_irrelevant (r : Run) (c₁ c₂ : List Bytes) (h : c₁.flatten = c₂.flatten) :
    feedChunks r c₁ = feedChunks r c₂ := by
  rw [stream_chunking, stream_chunking, h]

private theorem convert_dump (v : TVal) (h : wf v = true) (hs : streamOk v = true) :
    ∃ p t, dump v = frame p t ∧ isType t = true ∧ convert t p = some v := by
  cases v with
  | int i => exact ⟨_, 35, rfl, by decide, by simp [convert, pyInt_intDec]⟩
  | bytes bs => exact ⟨_, 44, rfl, by decide, by simp [convert]⟩
  | text cps =>
    simp only [wf] at h
    exact ⟨_, 36, rfl, by decide, by simp [convert, utf8Dec_enc cps h]⟩
  | null => exact ⟨[], 126, by decide, by decide, by simp [convert]⟩
  | float _ | bool _ | list _ | dict _ => simp [streamOk] at hs

/-- **One message, any following data**: started at a message boundary (any messages `out` already
delivered, `s` symbols already consumed), the machine fed `dump v ++ tail` delivers exactly the
payload `v` -- the value `parse` returns (`parse_dump`) -- records `sent = s + len(dump v)`, i.e. it
has consumed exactly the message, and continues on `tail` from a message boundary. -/
theorem stream_agrees (v : TVal) (h : wf v = true) (hs : streamOk v = true)
    (out : List (TVal × Nat)) (s : Nat) (tail : Bytes) :
    feed ⟨.start, out, s⟩ (dump v ++ tail)
      = feed ⟨.start, out ++ [(v, s + (dump v).length)], s + (dump v).length⟩ tail
    ∧ parse (dump v ++ tail) = some (v, tail) := by
  obtain ⟨p, t, hd, ht, hc⟩ := convert_dump v h hs
  refine ⟨?_, parse_dump v h tail⟩
  rw [hd]
  exact feed_frame_ok p t v ht hc out s tail

/-- the messages and `sent` values expected from a sequence of serialised values starting at `s` -/
def expected (s : Nat) : List TVal → List (TVal × Nat)
  | [] => []
  | v :: vs => (v, s + (dump v).length) :: expected (s + (dump v).length) vs

def dumpAll : List TVal → Bytes
  | [] => []
  | v :: vs => dump v ++ dumpAll vs

/-- **A stream of messages in any chunking, followed by any data**: the machine delivers each
payload in order, each with `sent` exactly at the end of that message, and then runs on the tail from
a message boundary. -/
theorem stream_messages (vs : List TVal) (h : ∀ v ∈ vs, wf v = true ∧ streamOk v = true)
    (tail : Bytes) (chunks : List Bytes) (hc : chunks.flatten = dumpAll vs ++ tail)
    (out : List (TVal × Nat)) (s : Nat) :
    feedChunks ⟨.start, out, s⟩ chunks
      = feed ⟨.start, out ++ expected s vs, s + (dumpAll vs).length⟩ tail := by
  rw [stream_chunking, hc]
  clear hc
  induction vs generalizing out s with
  | nil => simp [dumpAll, expected]
  | cons v vs ih =>
    have hv := h v (by simp)
    simp only [dumpAll, List.append_assoc]
    rw [(stream_agrees v hv.1 hv.2 out s _).1, ih (fun w hw => h w (by simp [hw]))]
    simp only [expected, List.append_assoc, List.singleton_append, List.length_append, Nat.add_assoc]

/-- whatever follows, the messages delivered so far stay delivered, unchanged and in order -/
theorem stream_delivered_stable (r : Run) (bs : Bytes) : ∃ more, (feed r bs).out = r.out ++ more :=
  feed_out_prefix bs r

/-- **Corollary (the observable statement)**: for any chunking of `dump v₁ ++ … ++ dump vₙ ++ tail`
the list of `(payload, sent)` pairs yielded by a fresh machine starts with exactly
`(vᵢ, len(dump v₁ … dump vᵢ))`. -/
theorem stream_yields (vs : List TVal) (h : ∀ v ∈ vs, wf v = true ∧ streamOk v = true)
    (tail : Bytes) (chunks : List Bytes) (hc : chunks.flatten = dumpAll vs ++ tail) :
    ∃ more, (feedChunks {} chunks).out = expected 0 vs ++ more := by
  have := stream_messages vs h tail chunks hc [] 0
  have e : ({} : Run) = ⟨.start, [], 0⟩ := rfl
  rw [e, this]
  obtain ⟨more, hm⟩ := stream_delivered_stable ⟨.start, [] ++ expected 0 vs, 0 + (dumpAll vs).length⟩ tail
  exact ⟨more, by simpa using hm⟩

/-- **The types the machine does not convert** (`!` bool, `^` float, `]` list, `}` dict): the frame is
consumed, no message is delivered and the run fails (AssertionError in `tnet_parser.process`). -/
theorem stream_unsupported (v : TVal) (hs : streamOk v = false) (out : List (TVal × Nat)) (s : Nat) :
    (feed ⟨.start, out, s⟩ (dump v)).st = .failed ∧ (feed ⟨.start, out, s⟩ (dump v)).out = out := by
  cases v with
  | float tok => exact feed_frame_bad tok 94 (Or.inr (by simp [convert])) out s
  | bool b => exact feed_frame_bad (boolTok b) 33 (Or.inr (by simp [convert])) out s
  | list vs => simpa [dump] using feed_frame_bad (dumpList vs) 93 (Or.inr (by simp [convert])) out s
  | dict kvs => simpa [dump] using feed_frame_bad (dumpDict kvs) 125 (Or.inr (by simp [convert])) out s
  | int _ | bytes _ | text _ | null => simp [streamOk] at hs

/-- **Agreement with `parse` on every input, not only on `dump` output.**  `scan1 s data` is the
machine's run from a message boundary up to its first message (`scan1_feed` below is that fact).
Whenever the machine delivers a first message `(v, m)` from `data`, `parse data` returns the same
value `v` and the same remaining input, and `m - s` is exactly the number of bytes `parse` consumed;
when it delivers none (input incomplete, or a failure), nothing is added to the delivered list.
(The converse fails by design: `parse` also accepts what Python's `int()` accepts as a length --
sign, spaces, underscores -- and the types `! ^ ] }`, see the examples.) -/
theorem stream_first_message_is_parse (data : Bytes) (out : List (TVal × Nat)) (s : Nat) :
    match scan1 s data with
    | some (v, m, rest) =>
        feed ⟨.start, out, s⟩ data = feed ⟨.start, out ++ [(v, m)], m⟩ rest
        ∧ parse data = some (v, rest) ∧ m + rest.length = s + data.length
    | none => (feed ⟨.start, out, s⟩ data).out = out := by
  have h1 := scan1_feed data s out
  cases h : scan1 s data with
  | none => simpa [h] using h1
  | some r =>
    obtain ⟨v, m, rest⟩ := r
    simp only [h] at h1
    exact ⟨h1, scan1_parse data s v m rest h⟩

example : scan1 0 [48, 51, 58, 97, 98, 99, 44, 57] = some (.bytes [97, 98, 99], 7, [57]) := by
  decide +kernel                                                                -- b'03:abc,9'
example : scan1 0 [51, 58, 97, 98] = none := by decide +kernel                   -- incomplete

/-! ## Non-vacuity and witnesses (`decide` on samples: tests of the definitions, not theorems) -/

/-- a nested value: `{"a:1": [-5, "é€😀", b"3:x,", 1.5e-07, True, None], "": {}}` -/
def sample : TVal :=
  .dict (.cons [97, 58, 49]
      (.list (.cons (.int (-5)) (.cons (.text [233, 8364, 128512]) (.cons (.bytes [51, 58, 120, 44])
        (.cons (.float [49, 46, 53, 101, 45, 48, 55]) (.cons (.bool true) (.cons .null .nil)))))))
    (.cons [] (.dict .nil) .nil))

example : wf sample = true := by decide
example : parse (dump sample ++ [49, 58]) = some (sample, [49, 58]) := by decide +kernel
example : dump? sample = some (dump sample) := by decide +kernel

/-- payload that is itself a tnetstring followed by digits and a colon -/
example : parse (dump (.bytes [51, 58, 97, 98, 99, 44, 49, 50, 58]) ++ [55]) =
    some (.bytes [51, 58, 97, 98, 99, 44, 49, 50, 58], [55]) := by decide +kernel

/-- the stream hypotheses are satisfiable; three messages split inside a length prefix, inside a
multi-byte character and before a type byte, followed by the start of a further message -/
example : feedChunks {} [[49], [58, 55, 35, 50, 58, 195], [169], [36, 48, 58], [126, 49, 50, 58, 97]]
    = ⟨.data 11 [97], [(.int 7, 4), (.text [233], 9), (.null, 12)], 16⟩ := by decide +kernel
example : dumpAll [.int 7, .text [233], .null] ++ [49, 50, 58, 97]
    = [[49], [58, 55, 35, 50, 58, 195], [169], [36, 48, 58], [126, 49, 50, 58, 97]].flatten := by
  decide +kernel

example : ∀ v ∈ [TVal.int 7, .text [233], .null], wf v = true ∧ streamOk v = true := by decide

/-- a tail beginning with a digit is not swallowed by the greedy SIZE of the previous message -/
example : (feed {} (dump (.bytes [120]) ++ [53])).out = [(.bytes [120], 4)] := by decide +kernel

/-- the hypotheses of `parse_dump` are needed: a repeated key cannot come back twice ... -/
example : parse (dump (.dict (.cons [97] (.int 1) (.cons [97] (.int 2) .nil))))
    = some (.dict (.cons [97] (.int 2) .nil), []) := by decide +kernel
/-- ... a surrogate code point is not encodable (the code raises), ... -/
example : dump? (.text [0xD800]) = none := by decide
/-- ... and neither is a non-ASCII dictionary key. -/
example : dump? (.dict (.cons [233] .null .nil)) = none := by decide

/-- mirrored quirks of `parse` on input that `dump` never produces -/
example : parse [48, 51, 58, 97, 98, 99, 44] = some (.bytes [97, 98, 99], []) := by decide +kernel   -- b'03:abc,'
example : parse [32, 43, 51, 32, 58, 97, 98, 99, 44] = some (.bytes [97, 98, 99], []) := by decide +kernel -- b' +3 :abc,'
example : parse [53, 58, 102, 97, 108, 115, 120, 33] = some (.bool false, []) := by decide +kernel   -- b'5:falsx!'
example : parse [45, 49, 58, 97, 44] = none := by decide +kernel                                    -- b'-1:a,'
example : parse [50, 58, 237, 160, 36] = none := by decide +kernel            -- truncated/surrogate UTF-8
/-- the machine is stricter than `parse` about the length prefix: digits only -/
example : (feed {} [32, 51, 58, 97, 98, 99, 44]).st = .failed := by decide +kernel

end Cpppo.Tnet
