import Cpppo.Proofs.Tnet

/-!
# C20 — tnetstring serialisation round-trips and the streaming parser agrees with it

Theorems about the model `Cpppo.Tnet` (`dump`, `parse` mirror `server/tnetstrings.py`; `step`/`feed`/
`feedChunks` mirror `tnet_machine` under `tnet_from` of `server/tnet.py`).

Quantification: every value `v : TVal` (integers of any size, float tokens, booleans, null, byte
strings of any content and length, text of any Unicode scalar values, lists and string-keyed
dictionaries nested to any depth) with `wf v` (decidable: float token has the `str(float)` shape,
text is encodable by the codec `e` given as `encoding=` to both `dump` and `parse` -- utf-8, latin-1,
ascii, utf-16 are modelled -- dictionary keys are ASCII and distinct); every following data `rest` /
`tail`; every chunking; every set `ign` of `ignore=` separator symbols that contains no digit and every
run of such separators between messages.  Nothing is bounded.

The stream model mirrors the code REPAIRED by fixes/C20-ignore-between-blocks.patch; the code before
the fix (`feedChunksOld`) is shown to depend on the chunking (`ignore_old_depends_on_chunking`).
-/
namespace Cpppo.Tnet

/-! ## Serialise / parse round trip -/

/-- **`parse(dump(v, encoding=e) + rest, encoding=e) == (v, rest)`**: parsing a serialised value followed by any further
data returns exactly that value (same constructors = same Python types), and exactly the further
data; for any nesting depth, any container size, any payload bytes. -/
theorem parse_dump (e : Enc) (v : TVal) (h : wf e v = true) (rest : Bytes) :
    parse e (dump e v ++ rest) = some (v, rest) := by
  unfold parse
  apply parseF_dump e v _ rest h
  have := size_lt_dump e v
  simp only [List.length_append]; omega

/-- **`parse(dump(v)) == (v, b'')`: the whole string is consumed.** -/
theorem parse_dump_whole (e : Enc) (v : TVal) (h : wf e v = true) : parse e (dump e v) = some (v, []) := by
  simpa using parse_dump e v h []

/-- `dump` is injective on well-formed values (an immediate consequence, stated because it is what
"equal value of the same types" needs: two different values never share a serialisation). -/
theorem dump_injective (e : Enc) (v w : TVal) (hv : wf e v = true) (hw : wf e w = true)
    (h : dump e v = dump e w) :
    v = w := by
  have h1 := parse_dump_whole e v hv
  have h2 := parse_dump_whole e w hw
  rw [h, h2] at h1
  simpa using h1.symm

mutual
private theorem encodable_of_wf (e : Enc) : ∀ v : TVal, wf e v = true → encodable e v = true
  | .int _, _ | .float _, _ | .bool _, _ | .null, _ | .bytes _, _ => rfl
  | .text _, h => by simpa [wf, encodable] using h
  | .list vs, h => by simp only [wf] at h; simpa [encodable] using encodableList_of_wf e vs h
  | .dict kvs, h => by simp only [wf] at h; simpa [encodable] using encodableDict_of_wf e kvs h
private theorem encodableList_of_wf (e : Enc) : ∀ vs : TList, wfList e vs = true → encodableList e vs = true
  | .nil, _ => rfl
  | .cons v vs, h => by
    simp only [wfList, Bool.and_eq_true] at h
    simp [encodableList, encodable_of_wf e v h.1, encodableList_of_wf e vs h.2]
private theorem encodableDict_of_wf (e : Enc) : ∀ kvs : TDict, wfDict e kvs = true → encodableDict e kvs = true
  | .nil, _ => rfl
  | .cons k v kvs, h => by
    simp only [wfDict, Bool.and_eq_true] at h
    obtain ⟨⟨⟨hk, _⟩, hv⟩, hd⟩ := h
    simp only [encodableDict, Bool.and_eq_true]
    exact ⟨⟨hk, encodable_of_wf e v hv⟩, encodableDict_of_wf e kvs hd⟩
end

/-- **`dump` does not raise on a well-formed value** (the model's `dump?` is `none` exactly where the
code raises UnicodeEncodeError: text the codec cannot encode, non-ASCII dictionary keys). -/
theorem dump_defined (e : Enc) (v : TVal) (h : wf e v = true) : dump? e v = some (dump e v) := by
  simp [dump?, encodable_of_wf e v h]

/-- **Only the length prefix delimits a payload**: whatever bytes the payload holds (digits, colons,
type tags, a complete tnetstring, ...), `parse_payload` of a framed payload followed by anything
returns that payload, its type byte and the remainder.  No hypothesis on `p`. -/
theorem payload_delimited_by_length (p : Bytes) (t : Nat) (rest : Bytes) :
    parsePayload (frame p t ++ rest) = some (p, t, rest) :=
  parsePayload_frame p t rest

/-- every serialisation is such a frame: decimal length of the payload, `:`, payload, type byte -/
theorem dump_is_frame (e : Enc) (v : TVal) : ∃ p t, dump e v = frame p t ∧ isType t = true := by
  cases v with
  | int i => exact ⟨_, 35, rfl, by decide⟩
  | float tok => exact ⟨_, 94, rfl, by decide⟩
  | bool b => exact ⟨_, 33, rfl, by decide⟩
  | null => exact ⟨[], 126, by simp [dump, frame, natDec, digitsLE], by decide⟩
  | bytes bs => exact ⟨_, 44, rfl, by decide⟩
  | text cps => exact ⟨_, 36, rfl, by decide⟩
  | list vs => exact ⟨dumpList e vs, 93, by simp [dump], by decide⟩
  | dict kvs => exact ⟨dumpDict e kvs, 125, by simp [dump], by decide⟩

/-! ## The streaming parser

`ign` is the `ignore=` option of `tnet_from`: symbols skipped between messages (`[]` = none).  The
machine decodes `$` payloads as utf-8 whatever codec `dump` was given, so the stream theorems are
about `dump .utf8` and `parse .utf8`. -/

/-- the types `tnet_parser.process` converts -/
def streamOk : TVal → Bool
  | .int _ | .bytes _ | .text _ | .null => true
  | _ => false

/-- **Chunk independence**: feeding the blocks one by one is feeding their concatenation; hence two
chunkings of the same bytes give the same messages, the same `sent` counts and the same state --
with or without `ignore=` separators, wherever the block boundaries fall. -/
theorem stream_chunking (ign : Bytes) (r : Run) (chunks : List Bytes) :
    feedChunks ign r chunks = feed ign r chunks.flatten :=
  feedChunks_flatten ign r chunks

theorem stream_chunking_irrelevant (ign : Bytes) (r : Run) (c₁ c₂ : List Bytes)
    (h : c₁.flatten = c₂.flatten) : feedChunks ign r c₁ = feedChunks ign r c₂ := by
  rw [stream_chunking, stream_chunking, h]

private theorem convert_dump (v : TVal) (h : wf .utf8 v = true) (hs : streamOk v = true) :
    ∃ p t, dump .utf8 v = frame p t ∧ isType t = true ∧ convert t p = some v := by
  cases v with
  | int i => exact ⟨_, 35, rfl, by decide, by simp [convert, pyInt_intDec]⟩
  | bytes bs => exact ⟨_, 44, rfl, by decide, by simp [convert]⟩
  | text cps =>
    simp only [wf, encOk] at h
    exact ⟨_, 36, rfl, by decide, by simp [convert, encText, utf8Dec_enc cps h]⟩
  | null => exact ⟨[], 126, by decide, by decide, by simp [convert]⟩
  | float _ | bool _ | list _ | dict _ => simp [streamOk] at hs

/-- **One message, any following data**: started at a message boundary (any messages `out` already
delivered, `s` symbols already consumed), the machine fed `dump v ++ tail` delivers exactly the
payload `v` -- the value `parse` returns (`parse_dump`) -- records `sent = s + len(dump v)`, i.e. it
has consumed exactly the message, and continues on `tail` from a message boundary. -/
theorem stream_agrees (ign : Bytes) (hi : IgnOk ign) (v : TVal) (h : wf .utf8 v = true)
    (hs : streamOk v = true) (out : List (TVal × Nat)) (s : Nat) (tail : Bytes) :
    feed ign ⟨.start, out, s⟩ (dump .utf8 v ++ tail)
      = feed ign ⟨.start, out ++ [(v, s + (dump .utf8 v).length)], s + (dump .utf8 v).length⟩ tail
    ∧ parse .utf8 (dump .utf8 v ++ tail) = some (v, tail) := by
  obtain ⟨p, t, hd, ht, hc⟩ := convert_dump v h hs
  refine ⟨?_, parse_dump .utf8 v h tail⟩
  rw [hd]
  exact feed_frame_ok ign hi p t v ht hc out s tail

/-- **Separators between messages** (`ignore=`): a run of ignorable symbols at a message boundary is
consumed, delivers nothing and leaves the machine at a message boundary -- however long the run is
and wherever in it the block boundaries fall (by `stream_chunking`). -/
theorem stream_separators (ign : Bytes) (seps : Bytes) (h : ∀ b ∈ seps, ign.contains b = true)
    (out : List (TVal × Nat)) (s : Nat) (tail : Bytes) :
    feed ign ⟨.start, out, s⟩ (seps ++ tail) = feed ign ⟨.start, out, s + seps.length⟩ tail := by
  rw [feed_append, feed_start_seps ign seps h]

/-- the stream `seps₁ dump(v₁) seps₂ dump(v₂) …` -/
def dumpAll : List (Bytes × TVal) → Bytes
  | [] => []
  | (seps, v) :: vs => seps ++ (dump .utf8 v ++ dumpAll vs)

/-- the messages and `sent` values expected from it, starting at `s` -/
def expected (s : Nat) : List (Bytes × TVal) → List (TVal × Nat)
  | [] => []
  | (seps, v) :: vs =>
    (v, s + seps.length + (dump .utf8 v).length) :: expected (s + seps.length + (dump .utf8 v).length) vs

/-- **A stream of messages, each preceded by any run of `ignore=` separators, in any chunking,
followed by any data**: the machine delivers each payload in order, each with `sent` exactly at the
end of that message, and then runs on the tail from a message boundary. -/
theorem stream_messages (ign : Bytes) (hi : IgnOk ign) (vs : List (Bytes × TVal))
    (h : ∀ sv ∈ vs, (∀ b ∈ sv.1, ign.contains b = true) ∧ wf .utf8 sv.2 = true ∧ streamOk sv.2 = true)
    (tail : Bytes) (chunks : List Bytes) (hc : chunks.flatten = dumpAll vs ++ tail)
    (out : List (TVal × Nat)) (s : Nat) :
    feedChunks ign ⟨.start, out, s⟩ chunks
      = feed ign ⟨.start, out ++ expected s vs, s + (dumpAll vs).length⟩ tail := by
  rw [stream_chunking, hc]
  clear hc
  induction vs generalizing out s with
  | nil => simp [dumpAll, expected]
  | cons sv vs ih =>
    obtain ⟨seps, v⟩ := sv
    have hv := h (seps, v) (by simp)
    simp only [dumpAll, List.append_assoc]
    rw [stream_separators ign seps hv.1, (stream_agrees ign hi v hv.2.1 hv.2.2 out _ _).1,
      ih (fun w hw => h w (by simp [hw]))]
    simp only [expected, List.append_assoc, List.singleton_append, List.length_append, Nat.add_assoc]

/-- whatever follows, the messages delivered so far stay delivered, unchanged and in order -/
theorem stream_delivered_stable (ign : Bytes) (r : Run) (bs : Bytes) :
    ∃ more, (feed ign r bs).out = r.out ++ more :=
  feed_out_prefix ign bs r

/-- **Corollary (the observable statement)**: for any chunking of
`seps₁ dump v₁ … sepsₙ dump vₙ tail` the list of `(payload, sent)` pairs yielded by a fresh machine
starts with exactly `(vᵢ, end position of message i)`. -/
theorem stream_yields (ign : Bytes) (hi : IgnOk ign) (vs : List (Bytes × TVal))
    (h : ∀ sv ∈ vs, (∀ b ∈ sv.1, ign.contains b = true) ∧ wf .utf8 sv.2 = true ∧ streamOk sv.2 = true)
    (tail : Bytes) (chunks : List Bytes) (hc : chunks.flatten = dumpAll vs ++ tail) :
    ∃ more, (feedChunks ign {} chunks).out = expected 0 vs ++ more := by
  have := stream_messages ign hi vs h tail chunks hc [] 0
  have e : ({} : Run) = ⟨.start, [], 0⟩ := rfl
  rw [e, this]
  obtain ⟨more, hm⟩ :=
    stream_delivered_stable ign ⟨.start, [] ++ expected 0 vs, 0 + (dumpAll vs).length⟩ tail
  exact ⟨more, by simpa using hm⟩

/-- **The types the machine does not convert** (`!` bool, `^` float, `]` list, `}` dict): the frame is
consumed, no message is delivered and the run fails (AssertionError in `tnet_parser.process`). -/
theorem stream_unsupported (ign : Bytes) (hi : IgnOk ign) (v : TVal) (hs : streamOk v = false)
    (out : List (TVal × Nat)) (s : Nat) :
    (feed ign ⟨.start, out, s⟩ (dump .utf8 v)).st = .failed
      ∧ (feed ign ⟨.start, out, s⟩ (dump .utf8 v)).out = out := by
  cases v with
  | float tok => exact feed_frame_bad ign hi tok 94 (Or.inr (by simp [convert])) out s
  | bool b => exact feed_frame_bad ign hi (boolTok b) 33 (Or.inr (by simp [convert])) out s
  | list vs =>
    simpa [dump] using feed_frame_bad ign hi (dumpList .utf8 vs) 93 (Or.inr (by simp [convert])) out s
  | dict kvs =>
    simpa [dump] using feed_frame_bad ign hi (dumpDict .utf8 kvs) 125 (Or.inr (by simp [convert])) out s
  | int _ | bytes _ | text _ | null => simp [streamOk] at hs

/-- **Agreement with `parse` on every input, not only on `dump` output.**  `scan1 ign s data` is the
machine's run from a message boundary up to its first message (`scan1_feed` is that fact).
Whenever the machine delivers a first message `(v, m)` from `data`, then `data` is a run of
`ignore=` separators followed by a `body` on which `parse` returns the same value `v` and the same
remaining input, and `m - s` is exactly the separators plus the bytes `parse` consumed; when it
delivers none (input incomplete, or a failure), nothing is added to the delivered list.
(The converse fails by design: `parse` also accepts what Python's `int()` accepts as a length --
sign, spaces, underscores -- and the types `! ^ ] }`, see the examples.) -/
theorem stream_first_message_is_parse (ign : Bytes) (data : Bytes) (out : List (TVal × Nat)) (s : Nat) :
    match scan1 ign s data with
    | some (v, m, rest) =>
        feed ign ⟨.start, out, s⟩ data = feed ign ⟨.start, out ++ [(v, m)], m⟩ rest
        ∧ (∃ seps body, data = seps ++ body ∧ (∀ b ∈ seps, ign.contains b = true)
            ∧ parse .utf8 body = some (v, rest))
        ∧ m + rest.length = s + data.length
    | none => (feed ign ⟨.start, out, s⟩ data).out = out := by
  have h1 := scan1_feed ign data s out
  cases h : scan1 ign s data with
  | none => simpa [h] using h1
  | some r =>
    obtain ⟨v, m, rest⟩ := r
    simp only [h] at h1
    obtain ⟨seps, body, hd, hs, hp, hm⟩ := scan1_parse ign data s v m rest h
    exact ⟨h1, ⟨seps, body, hd, hs, hp⟩, hm⟩

/-! ### The code before fixes/C20-ignore-between-blocks.patch depends on the chunking

With `ignore=b'\n'` the stream `1:a,\n1:b,` delivered in one block yields `a` and `b`; the same bytes
delivered as `1:a,` then `\n1:b,` yield `a` and then fail (the separator reaches SIZE: NonTerminal).
This is the replay used against the implementation. -/
theorem ignore_old_depends_on_chunking :
    [[49, 58, 97, 44, 10, 49, 58, 98, 44]].flatten = [[49, 58, 97, 44], [10, 49, 58, 98, 44]].flatten
    ∧ (feedChunksOld [10] {} [[49, 58, 97, 44, 10, 49, 58, 98, 44]]).run
        = ⟨.start, [(.bytes [97], 4), (.bytes [98], 9)], 9⟩
    ∧ (feedChunksOld [10] {} [[49, 58, 97, 44], [10, 49, 58, 98, 44]]).run
        = ⟨.failed, [(.bytes [97], 4)], 4⟩
    ∧ feedChunks [10] {} [[49, 58, 97, 44], [10, 49, 58, 98, 44]]
        = feedChunks [10] {} [[49, 58, 97, 44, 10, 49, 58, 98, 44]] := by
  decide +kernel

/-- the same code never skipped the symbol 0 (`source.peek()` is falsy), and never skipped a
separator in front of the very first message of a connection -/
theorem ignore_old_nul_and_leading :
    (feedChunksOld [0] {} [[49, 58, 97, 44, 0, 49, 58, 98, 44]]).run.st = .failed
    ∧ (feedChunksOld [10] {} [[10, 49, 58, 97, 44]]).run.st = .failed
    ∧ (feedChunks [0] {} [[49, 58, 97, 44, 0, 49, 58, 98, 44]]).out = [(.bytes [97], 4), (.bytes [98], 9)]
    ∧ (feedChunks [10] {} [[10, 49, 58, 97, 44]]).out = [(.bytes [97], 5)] := by
  decide +kernel

/-! ## Non-vacuity and witnesses (`decide` on samples: tests of the definitions, not theorems) -/

example : scan1 [] 0 [48, 51, 58, 97, 98, 99, 44, 57] = some (.bytes [97, 98, 99], 7, [57]) := by
  decide +kernel                                                                -- b'03:abc,9'
example : scan1 [] 0 [51, 58, 97, 98] = none := by decide +kernel                -- incomplete
example : scan1 [13, 10] 0 [13, 10, 10, 49, 58, 97, 44, 13] = some (.bytes [97], 7, [13]) := by
  decide +kernel                                                                -- b'\r\n\n1:a,\r'

/-- a nested value: `{"a:1": [-5, "é€😀", b"3:x,", 1.5e-07, True, None], "": {}}` -/
def sample : TVal :=
  .dict (.cons [97, 58, 49]
      (.list (.cons (.int (-5)) (.cons (.text [233, 8364, 128512]) (.cons (.bytes [51, 58, 120, 44])
        (.cons (.float [49, 46, 53, 101, 45, 48, 55]) (.cons (.bool true) (.cons .null .nil)))))))
    (.cons [] (.dict .nil) .nil))

example : wf .utf8 sample = true := by decide
example : parse .utf8 (dump .utf8 sample ++ [49, 58]) = some (sample, [49, 58]) := by decide +kernel
example : dump? .utf8 sample = some (dump .utf8 sample) := by decide +kernel
/-- the same under utf-16 (every text carries its BOM) ... -/
example : wf .utf16 sample = true ∧ parse .utf16 (dump .utf16 sample ++ [49]) = some (sample, [49]) := by
  decide +kernel
/-- ... and non-ASCII text below a dictionary below a list under latin-1 -/
def sampleLatin : TVal := .list (.cons (.dict (.cons [107] (.text [99, 97, 102, 233]) .nil)) .nil)
example : wf .latin1 sampleLatin = true
    ∧ parse .latin1 (dump .latin1 sampleLatin) = some (sampleLatin, [])
    ∧ dump .latin1 sampleLatin ≠ dump .utf8 sampleLatin := by decide +kernel
/-- the codec must be able to encode the text: `'€'.encode('latin-1')` raises -/
example : dump? .latin1 (.text [8364]) = none ∧ dump? .ascii (.text [233]) = none := by decide

/-- payload that is itself a tnetstring followed by digits and a colon -/
example : parse .utf8 (dump .utf8 (.bytes [51, 58, 97, 98, 99, 44, 49, 50, 58]) ++ [55]) =
    some (.bytes [51, 58, 97, 98, 99, 44, 49, 50, 58], [55]) := by decide +kernel

/-- the stream hypotheses are satisfiable; three messages split inside a length prefix, inside a
multi-byte character and before a type byte, followed by the start of a further message -/
example : feedChunks [] {} [[49], [58, 55, 35, 50, 58, 195], [169], [36, 48, 58], [126, 49, 50, 58, 97]]
    = ⟨.data 11 [97], [(.int 7, 4), (.text [233], 9), (.null, 12)], 16⟩ := by decide +kernel
example : dumpAll [([], .int 7), ([], .text [233]), ([], .null)] ++ [49, 50, 58, 97]
    = [[49], [58, 55, 35, 50, 58, 195], [169], [36, 48, 58], [126, 49, 50, 58, 97]].flatten := by
  decide +kernel
example : ∀ sv ∈ [(([] : Bytes), TVal.int 7), ([], .text [233]), ([], .null)],
    (∀ b ∈ sv.1, ([] : Bytes).contains b = true) ∧ wf .utf8 sv.2 = true ∧ streamOk sv.2 = true := by decide

/-- with `ignore=b'\r\n'`: CR LF after the first message, a blank line before the third, blocks cut
between CR and LF and in front of a separator -/
example : IgnOk [13, 10] := by decide
example : feedChunks [13, 10] {} [[49, 58, 97, 44, 13], [10, 49, 58, 98, 44], [10, 10, 48, 58, 126]]
    = ⟨.start, [(.bytes [97], 4), (.bytes [98], 10), (.null, 15)], 15⟩ := by decide +kernel
example : dumpAll [([], .bytes [97]), ([13, 10], .bytes [98]), ([10, 10], .null)]
    = [[49, 58, 97, 44, 13], [10, 49, 58, 98, 44], [10, 10, 48, 58, 126]].flatten := by decide +kernel
/-- `IgnOk` is needed: an ignorable digit eats the length prefix -/
example : (feed [49] {} [49, 58, 97, 44]).st = .failed := by decide +kernel

/-- text that begins with U+FEFF (bytes EF BB BF) is ordinary text: neither `parse` nor the machine strips
a "byte order mark" (an instance of `stream_agrees`; U+FEFF is a scalar value) -/
example : wf .utf8 (.text [65279, 97]) = true
    ∧ (feed [] {} (dump .utf8 (.text [65279, 97]))).out = [(.text [65279, 97], 7)]
    ∧ parse .utf8 (dump .utf8 (.text [65279, 97])) = some (.text [65279, 97], []) := by decide +kernel

/-- a tail beginning with a digit is not swallowed by the greedy SIZE of the previous message -/
example : (feed [] {} (dump .utf8 (.bytes [120]) ++ [53])).out = [(.bytes [120], 4)] := by decide +kernel

/-- the hypotheses of `parse_dump` are needed: a repeated key cannot come back twice ... -/
example : parse .utf8 (dump .utf8 (.dict (.cons [97] (.int 1) (.cons [97] (.int 2) .nil))))
    = some (.dict (.cons [97] (.int 2) .nil), []) := by decide +kernel
/-- ... a surrogate code point is not encodable (the code raises), ... -/
example : dump? .utf8 (.text [0xD800]) = none := by decide
/-- ... and neither is a non-ASCII dictionary key. -/
example : dump? .utf8 (.dict (.cons [233] .null .nil)) = none := by decide

/-- mirrored quirks of `parse` on input that `dump` never produces -/
example : parse .utf8 [48, 51, 58, 97, 98, 99, 44] = some (.bytes [97, 98, 99], []) := by decide +kernel   -- b'03:abc,'
example : parse .utf8 [32, 43, 51, 32, 58, 97, 98, 99, 44] = some (.bytes [97, 98, 99], []) := by decide +kernel -- b' +3 :abc,'
example : parse .utf8 [53, 58, 102, 97, 108, 115, 120, 33] = some (.bool false, []) := by decide +kernel   -- b'5:falsx!'
example : parse .utf8 [45, 49, 58, 97, 44] = none := by decide +kernel                                    -- b'-1:a,'
example : parse .utf8 [50, 58, 237, 160, 36] = none := by decide +kernel            -- truncated/surrogate UTF-8
example : parse .utf16 [51, 58, 255, 254, 97, 36] = none := by decide +kernel       -- odd utf-16 length
/-- the machine is stricter than `parse` about the length prefix: digits only -/
example : (feed [] {} [32, 51, 58, 97, 98, 99, 44]).st = .failed := by decide +kernel

end Cpppo.Tnet
