import Cpppo.Model.Tnet
namespace Cpppo.Tnet
theorem placeholder : (1 : Nat) = 1 := rfl
end Cpppo.Tnet
