import Cpppo.Proofs.ClientPipeline
import Cpppo.Proofs.ClientPath
import Cpppo.Proofs.ClientOps
import Cpppo.Generated.Tables

/-!
# C12 — Client results do not depend on pipelining depth or request bundling

Theorems about the models `Cpppo.Client.issue` / `pipeline` / `synchronous` / `operate`
(`connector.issue`, `.pipeline`, `.synchronous`, `.operate`) and `parsePathElements` / `formatPath`
/ `parseOperation` (`device.parse_path_elements`, `client.format_path`, `client.parse_operations`).

Quantification: every operation list (over an arbitrary type of operations `α`), every size-estimate
function, every bundle key (route/send path identity), every `multiple`, every `depth` (any integer),
every starting index, and every device `step : σ → α → σ × ρ` answering each request of each packet in
order (the abstraction justified by C06/C07).  `fragment` only selects the request form
(`reqKind`): the theorems hold for the request list of either setting.

Hypothesis: `index + ops.length ≤ 10^8` — the sender context carries `str(index)` in 8 bytes;
`context_overflow` shows the model (and, by the correspondence, the code) failing beyond it.
-/
namespace Cpppo.Client
open Cpppo.Py

variable {α κ σ ρ : Type} [DecidableEq κ]

/-- the replies of the device to the operations one by one, in operation order -/
def sequential (step : σ → α → σ × ρ) (s0 : σ) (ops : List α) : List ρ := (runMembers step s0 ops).2

/-! ## bundling -/

/-- **Nothing lost, duplicated or reordered**: the members of the packets, concatenated, are the
operations. -/
theorem issue_partition (est : α → Nat × Nat) (key : α → κ) (multiple rmin pmin index : Nat)
    (ops : List α) :
    (issue est key multiple rmin pmin index ops).flatMap Packet.members = ops :=
  issue_members est key multiple rmin pmin index ops

/-- **Bundling never mixes operations with different route or send paths**: every member of a
packet has the key of the packet's first member. -/
theorem issue_homogeneous (est : α → Nat × Nat) (key : α → κ) (multiple rmin pmin index : Nat)
    (ops : List α) :
    ∀ p ∈ issue est key multiple rmin pmin index ops, ∀ a ∈ p.members, ∀ b ∈ p.members,
      key a = key b := by
  intro p hp a ha b hb
  have h := issue_homogeneous_head est key multiple rmin pmin index ops p hp
  cases hm : p.members with
  | nil => rw [hm] at ha; cases ha
  | cons f rest =>
    have hf : p.members.head? = some f := by rw [hm]; rfl
    rw [h f hf a ha, h f hf b hb]

/-- **Packet indices are `index, index+1, …`**, no packet is empty, and without `multiple` every
packet carries exactly one operation and is not a Multiple Service Packet. -/
theorem issue_index_monotone (est : α → Nat × Nat) (key : α → κ) (multiple rmin pmin index : Nat)
    (ops : List α) :
    (issue est key multiple rmin pmin index ops).map Packet.index
        = List.range' index (issue est key multiple rmin pmin index ops).length
    ∧ (∀ p ∈ issue est key multiple rmin pmin index ops, p.members ≠ [])
    ∧ (multiple = 0 → ∀ p ∈ issue est key multiple rmin pmin index ops,
        p.bundled = false ∧ ∃ a, p.members = [a]) := by
  refine ⟨issue_indices est key multiple rmin pmin index ops,
    issue_nonempty est key multiple rmin pmin index ops, ?_⟩
  intro h p hp
  subst h
  exact issueSingle_shape index ops p (by simpa [issue] using hp)

/-- all packet indices of an issue stay below the context limit -/
theorem issue_ctx_ok (est : α → Nat × Nat) (key : α → κ) (multiple rmin pmin index : Nat)
    (ops : List α) (h : index + ops.length ≤ 10 ^ 8) :
    ∀ p ∈ issue est key multiple rmin pmin index ops, ctxEq p.index p.index = true := by
  intro p hp
  apply ctxEq_of_lt
  have hidx := issue_indices est key multiple rmin pmin index ops
  have hlen := issue_length_le est key multiple rmin pmin index ops
  have : p.index ∈ (issue est key multiple rmin pmin index ops).map Packet.index :=
    List.mem_map_of_mem hp
  rw [hidx, List.mem_range'_1] at this
  omega

/-! ## pipelining -/

/-- what every entry point yields: the items in issue order, each with the reply of the in-order
device -/
def expected (step : σ → α → σ × ρ) (s0 : σ) (ps : List (Packet α)) : List (Nat × ρ) :=
  List.zipWith mk (flatItems ps) (future step s0 ps)

theorem expected_bodies (step : σ → α → σ × ρ) (s0 : σ) (ps : List (Packet α)) :
    (expected step s0 ps).map Prod.snd = sequential step s0 (ps.flatMap Packet.members) := by
  unfold expected
  rw [zipWith_mk_snd _ _ (future_length step s0 ps).symm, future_bodies]
  rfl

theorem expected_indices (step : σ → α → σ × ρ) (s0 : σ) (ps : List (Packet α)) :
    (expected step s0 ps).map Prod.fst = (flatItems ps).map Prod.fst := by
  unfold expected
  rw [zipWith_mk_fst _ _ (future_length step s0 ps).symm]

/-- **`pipeline` at any depth harvests every issued item exactly once, in order, and completes.** -/
theorem pipeline_results (step : σ → α → σ × ρ) (depth : Int) (est : α → Nat × Nat) (key : α → κ)
    (multiple rmin pmin index : Nat) (s0 : σ) (ops : List α) (h : index + ops.length ≤ 10 ^ 8) :
    pipeline step depth index s0 (issue est key multiple rmin pmin index ops)
      = (expected step s0 (issue est key multiple rmin pmin index ops), Outcome.ok) :=
  pipeline_spec step depth index s0 _ (issue_nonempty est key multiple rmin pmin index ops)
    (issue_ctx_ok est key multiple rmin pmin index ops h)

theorem synchronous_results (step : σ → α → σ × ρ) (est : α → Nat × Nat) (key : α → κ)
    (multiple rmin pmin index : Nat) (s0 : σ) (ops : List α) (h : index + ops.length ≤ 10 ^ 8) :
    synchronous step s0 (issue est key multiple rmin pmin index ops)
      = (expected step s0 (issue est key multiple rmin pmin index ops), Outcome.ok) :=
  synchronous_spec step s0 _ (issue_nonempty est key multiple rmin pmin index ops)
    (issue_ctx_ok est key multiple rmin pmin index ops h)

theorem operate_results (step : σ → α → σ × ρ) (depth : Nat) (est : α → Nat × Nat) (key : α → κ)
    (multiple rmin pmin index : Nat) (s0 : σ) (ops : List α) (h : index + ops.length ≤ 10 ^ 8) :
    operate step depth index s0 (issue est key multiple rmin pmin index ops)
      = (expected step s0 (issue est key multiple rmin pmin index ops), Outcome.ok) := by
  unfold operate
  split
  · exact synchronous_results step est key multiple rmin pmin index s0 ops h
  · exact pipeline_results step depth est key multiple rmin pmin index s0 ops h

/-- **One result per operation, in operation order, with the statuses and values of the one-by-one
execution — for every depth, every bundle limit, every estimate, every key function.** -/
theorem results_invariant (step : σ → α → σ × ρ) (depth : Nat) (est : α → Nat × Nat) (key : α → κ)
    (multiple rmin pmin index : Nat) (s0 : σ) (ops : List α) (h : index + ops.length ≤ 10 ^ 8) :
    (operate step depth index s0 (issue est key multiple rmin pmin index ops)).2 = Outcome.ok
    ∧ (operate step depth index s0 (issue est key multiple rmin pmin index ops)).1.map Prod.snd
        = sequential step s0 ops
    ∧ (operate step depth index s0 (issue est key multiple rmin pmin index ops)).1.length
        = ops.length := by
  rw [operate_results step depth est key multiple rmin pmin index s0 ops h]
  have hb := expected_bodies step s0 (issue est key multiple rmin pmin index ops)
  rw [issue_partition] at hb
  refine ⟨rfl, hb, ?_⟩
  have := congrArg List.length hb
  simp only [List.length_map] at this
  rw [this]
  exact runMembers_length step s0 ops

/-- **Any two settings give the same result sequence** (different depth, bundle limit, estimates,
path keys and starting index; pipeline or synchronous). -/
theorem results_independent (step : σ → α → σ × ρ) (s0 : σ) (ops : List α)
    (d1 d2 : Nat) (est1 est2 : α → Nat × Nat) (key1 key2 : α → κ) (m1 m2 r1 r2 p1 p2 i1 i2 : Nat)
    (h1 : i1 + ops.length ≤ 10 ^ 8) (h2 : i2 + ops.length ≤ 10 ^ 8) :
    (operate step d1 i1 s0 (issue est1 key1 m1 r1 p1 i1 ops)).1.map Prod.snd
      = (operate step d2 i2 s0 (issue est2 key2 m2 r2 p2 i2 ops)).1.map Prod.snd := by
  rw [(results_invariant step d1 est1 key1 m1 r1 p1 i1 s0 ops h1).2.1,
    (results_invariant step d2 est2 key2 m2 r2 p2 i2 s0 ops h2).2.1]

/-- the index yielded with a result is the index of the packet that carried the operation -/
theorem results_indices (step : σ → α → σ × ρ) (depth : Nat) (est : α → Nat × Nat) (key : α → κ)
    (multiple rmin pmin index : Nat) (s0 : σ) (ops : List α) (h : index + ops.length ≤ 10 ^ 8) :
    (operate step depth index s0 (issue est key multiple rmin pmin index ops)).1.map Prod.fst
      = (flatItems (issue est key multiple rmin pmin index ops)).map Prod.fst := by
  rw [operate_results step depth est key multiple rmin pmin index s0 ops h]
  exact expected_indices step s0 _

/-- the `pipeline` entry point itself, for any (also negative) depth -/
theorem pipeline_invariant (step : σ → α → σ × ρ) (depth : Int) (est : α → Nat × Nat) (key : α → κ)
    (multiple rmin pmin index : Nat) (s0 : σ) (ops : List α) (h : index + ops.length ≤ 10 ^ 8) :
    (pipeline step depth index s0 (issue est key multiple rmin pmin index ops)).2 = Outcome.ok
    ∧ (pipeline step depth index s0 (issue est key multiple rmin pmin index ops)).1.map Prod.snd
        = sequential step s0 ops := by
  rw [pipeline_results step depth est key multiple rmin pmin index s0 ops h]
  have hb := expected_bodies step s0 (issue est key multiple rmin pmin index ops)
  rw [issue_partition] at hb
  exact ⟨rfl, hb⟩

/-- `fragment` only chooses between Read/Write Tag and Read/Write Tag Fragmented, and only for
operations that do not say themselves (no 'offset' entry) -/
theorem fragment_only_selects_service (op : Op) (h : op.offset ≠ none) :
    reqKind true op = reqKind false op := by
  unfold reqKind
  cases ho : op.offset with
  | none => exact absurd ho h
  | some o => cases o <;> rfl

/-! ## the same operation list, issued again -/

/-- `issue` works on `op.copy()`: the caller's operation dicts are as before -/
theorem issue_leaves_caller_list (fragment : Bool) (ops : List RawOp) :
    callerAfter true fragment ops = ops := rfl

/-- **Every pass over the same list object acts on the same operations**, whatever settings the
list was issued under before: the k-th pass sees `ops` resolved for its own `fragment` only. -/
theorem passes_see_same_operations (ops : List RawOp) (ps : List Pass) :
    passOps true ops ps = ps.map fun p => ops.map (RawOp.toOp p.fragment) := by
  induction ps generalizing ops with
  | nil => rfl
  | cons p ps ih => simp only [passOps, List.map_cons, issue_leaves_caller_list, ih]

/-- **Re-issuing gives the same results**: for any history of earlier passes `before`, a pass with
setting `p` (any entry depth, bundle limit, estimates, keys, device) over the same list yields one
result per operation with the bodies of the one-by-one execution of `ops` - exactly what a first pass
yields. -/
theorem reissue_results_invariant (step : σ → Op → σ × ρ) (depth : Nat) (est : Op → Nat × Nat)
    (key : Op → κ) (multiple rmin pmin index : Nat) (s0 : σ) (ops : List RawOp)
    (before : List Pass) (p : Pass) (h : index + ops.length ≤ 10 ^ 8) :
    ∃ seen, (passOps true ops (before ++ [p])).getLast? = some seen
      ∧ seen = ops.map (RawOp.toOp p.fragment)
      ∧ (operate step depth index s0 (issue est key multiple rmin pmin index seen)).2 = Outcome.ok
      ∧ (operate step depth index s0 (issue est key multiple rmin pmin index seen)).1.map Prod.snd
          = sequential step s0 (ops.map (RawOp.toOp p.fragment)) := by
  refine ⟨ops.map (RawOp.toOp p.fragment), ?_, rfl, ?_, ?_⟩
  · rw [passes_see_same_operations]; simp
  · exact (results_invariant step depth est key multiple rmin pmin index s0 _ (by simpa using h)).1
  · exact (results_invariant step depth est key multiple rmin pmin index s0 _ (by simpa using h)).2.1

/-- Without the copy (`callerAfter false`) the second pass finds 'method' popped: a Get Attribute
Single operation is issued as a Read Tag [Fragmented], a Set Attribute Single as a Write Tag
[Fragmented], and the pinned
'offset' of the first pass overrides the second pass's `fragment`. -/
theorem aliasing_changes_second_pass :
    let gas : RawOp := { method := some Method.gas }
    let sas : RawOp := { method := some Method.sas, hasData := true, ndata := 4 }
    let rd : RawOp := {}
    let p1 : Pass := { via := 0, depth := 0, multiple := 0, fragment := false }
    let p2 : Pass := { via := 1, depth := 2, multiple := 0, fragment := true }
    (passOps false [gas, sas, rd] [p1, p2]).map (fun l => l.map fun o => reqKind false o)
        = [[ReqKind.gas, ReqKind.sas, ReqKind.readTag], [ReqKind.readFrag, ReqKind.writeFrag, ReqKind.readTag]]
    ∧ (passOps true [gas, sas, rd] [p1, p2]).map (fun l => l.map fun o => reqKind false o)
        = [[ReqKind.gas, ReqKind.sas, ReqKind.readTag], [ReqKind.gas, ReqKind.sas, ReqKind.readFrag]] := by
  decide

/-! ## grammar: a formatted path parses back to the same segments -/

/-- the path shapes `format_path` documents -/
inductive WFPath : List Seg → Prop
  | symbolic (n : Str) (ms : List Str) (hok : ∀ m ∈ n :: ms, NameOk m) : WFPath ((n :: ms).map Seg.sym)
  | numeric (c : Nat) (rest : List Nat) (hr : rest.length ≤ 2) : WFPath (stdSegs c rest)

/-- **A formatted path parses back to the same segments**, the element index and the element
count: symbolic tags `A.B.C` and numeric `@class[/instance[/attribute]]` (hexadecimal class,
decimal rest), with `[elem]` or `[elem-last]` when an element segment (and a count) is given. -/
theorem format_parse_path (body : List Seg) (hwf : WFPath body) (elem count : Option Nat)
    (hc : ∀ c, count = some c → 0 < c) :
    ∃ text, formatPath (body ++ elemSegs elem) (count.map fun c => (c : Int)) = some text
      ∧ parsePathElements text
          = Except.ok (body ++ elemSegs elem, elem.map (fun e => (e : Int)), countOut elem count) := by
  cases hwf with
  | symbolic n ms hok => exact format_parse_symbolic n ms hok elem count hc
  | numeric c rest hr => exact format_parse_numeric c rest hr elem count hc

/-! ## grammar: an operation text denotes the operation it spells -/

/-- the type table extracted from the live `client.CIP_TYPES` -/
def liveTypes : List CipType :=
  Generated.clientCipTypes.map fun (n, tt, sz, k, lo, hi) =>
    { name := n.toList, tagType := tt, size := sz,
      kind := if k = 0 then Kind.str else if k = 1 then Kind.bool else if k = 2 then Kind.real
              else Kind.int lo hi }

/-- **A textual operation description denotes exactly the operation it spells**: for every path
(symbolic tag levels or numeric class/instance/attribute), element index, range or `*count`, byte
offset, and `=(TYPE)v,v,...` list of in-range integers of a type of the table (with consistent
counts: `OpSpec.Ok`), `parse_operations` yields the operation with that path, element segment, count,
offset, tag type and data. -/
theorem parse_operation_spells (types : List CipType) (fragment : Bool) (intType : Str) (s : OpSpec)
    (hs : s.Ok types fragment intType) :
    parseOperation types fragment intType s.text = Except.ok (s.denote fragment) :=
  parseOperation_spells types fragment intType s hs

/-- every integer type of the live table can be written by name (the hypotheses of `WriteSpec.Ok`
about the type hold for all of them) -/
theorem live_int_types_nameable :
    ∀ t ∈ liveTypes, (∃ lo hi, t.kind = Kind.int lo hi) →
      lookupType liveTypes t.name = some t ∧ upper t.name = t.name ∧ ∀ c ∈ t.name, isAlnum c = true := by
  have h : ∀ t ∈ liveTypes,
      lookupType liveTypes t.name = some t ∧ upper t.name = t.name ∧ ∀ c ∈ t.name, isAlnum c = true := by
    decide
  exact fun t ht _ => h t ht

/-- `get_attribute.attribute_operations` chooses the service from the last path segment -/
theorem attribute_method_of_path (op : OpD) (segs : List Seg) (k : Str) (v : Int)
    (hp : op.path = segs ++ [Seg.dict [(k, v)]]) :
    attributeMethod op =
      if k = kInstance then (if op.data.isSome then Except.error Err.reject else Except.ok AttrMethod.getAll)
      else if k = kSymbolic ∨ k = kAttribute ∨ k = kElement then
        Except.ok (if op.data.isSome then AttrMethod.setSingle else AttrMethod.getSingle)
      else Except.error Err.reject := by
  unfold attributeMethod
  rw [hp]
  simp only [List.getLast?_append, List.getLast?_singleton, Option.some_or, hasKey, List.any_cons,
    List.any_nil, Bool.or_false, beq_iff_eq]
  by_cases h1 : k = kInstance
  · subst h1; simp [pure, Except.pure, throw, throwThe, MonadExceptOf.throw]
  · by_cases h2 : k = kSymbolic
    · subst h2; simp [pure, Except.pure, kSymbolic, kInstance]
    · by_cases h3 : k = kAttribute
      · subst h3; simp [pure, Except.pure, kAttribute, kInstance]
      · by_cases h4 : k = kElement
        · subst h4; simp [pure, Except.pure, kElement, kInstance]
        · simp [h1, h2, h3, h4, throw, throwThe, MonadExceptOf.throw]

/-! ## non-vacuity, witnesses -/

section Examples

def cfg0 : Cfg := { sizes := [(195, 2), (196, 4), (194, 1), (198, 1), (202, 4)] }

def rd (el : Nat) (ro : Nat := 0) : Op := { method := Method.read, elements := some el, route := ro }
def wr (n : Nat) : Op := { method := Method.write, ndata := n, tagType := some 196 }

/-- bundling at limit 150: three operations fit (request estimate 68+22+36+22 = 148); the operation
with another route path travels alone, and so does the one after it (route differs again) -/
example : (issueOps cfg0 150 0 [rd 1, wr 3, rd 10, rd 1 7, rd 1]).map (fun p => (p.index, p.members.length))
    = [(0, 3), (1, 1), (2, 1)] := by decide

/-- The estimate of the operation that starts a new bundle after a flush is not added to the fresh
totals (the code's quirk, mirrored): of four 40-element reads (reply estimate 4+160 each) at limit
300 the first travels alone (68+164+164 ≥ 300), but the second and third are bundled although their
estimate is 68 + 2*164 = 396 ≥ 300 as well. -/
example : (issueOps cfg0 300 0 [rd 40, rd 40, rd 40, rd 40]).map (fun p => p.members.length) = [1, 2, 1] := by
  decide

example : ∀ p ∈ issueOps cfg0 150 0 [rd 1, wr 3, rd 10, rd 1 7, rd 1], p.members ≠ [] := by decide

/-- the hypotheses of `results_invariant` hold and the conclusion is not trivial: a counter device -/
example : (operate (fun (s : Nat) (o : Op) => (s + 1, s * 10 + o.ndata)) 2 5 0
      (issueOps cfg0 150 5 [rd 1, wr 3, rd 10, rd 1 7, rd 1])).1
    = [(5, 0), (5, 13), (5, 20), (6, 30), (7, 40)] := by decide

example : NameOk "Motor_7".toList := by decide
example : WFPath [Seg.sym "A".toList, Seg.sym "B".toList] :=
  WFPath.symbolic "A".toList ["B".toList] (by decide)

example : formatPath (stdSegs 0x99 [1, 2] ++ elemSegs (some 5)) (some 3) = some "@0x0099/1/2[5-7]".toList := by
  decide

example : (parsePathElements "@0x0099/1/2[5-7]".toList).toOption
    = some (stdSegs 0x99 [1, 2] ++ elemSegs (some 5), some 5, some 3) := by decide

/-- outside `WFPath`: an element segment between symbolic segments is moved to the end by
`format_path`, so the text parses to different segments -/
theorem interleaved_element_not_preserved :
    formatPath [Seg.sym "A".toList, elemSeg 1, Seg.sym "B".toList] none = some "A.B[1]".toList
    ∧ (parsePathElements "A.B[1]".toList).toOption
        = some ([Seg.sym "A".toList, Seg.sym "B".toList, elemSeg 1], some 1, none) := by
  decide

def tDINT : CipType := { name := "DINT".toList, tagType := 196, size := 4, kind := Kind.int (-2147483648) 4294967295 }

/-- the docstring's `TAG[4-7]=1,2,3,4`, with a cast and a negative value -/
def exWrite : OpSpec :=
  { body := PathBody.symbolic "TAG".toList [], place := { elem := some 4, count := some 4 },
    write := some { ty := tDINT, lo := -2147483648, hi := 4294967295, vals := [1, -2, 3, 4] } }

example : exWrite.text = "TAG[4-7]=(DINT)1,-2,3,4".toList := by decide

theorem exWrite_ok : exWrite.Ok liveTypes false "INT".toList := by
  refine ⟨by decide, by decide, ?_⟩
  intro w hw
  simp only [exWrite, Option.some.injEq] at hw
  subst hw
  refine ⟨by decide, by decide, by decide, by decide, by decide, by decide, ?_⟩
  rw [if_pos (by decide)]
  decide

example : parseOperation liveTypes false "INT".toList "TAG[4-7]=(DINT)1,-2,3,4".toList
    = Except.ok { write := true, offset := none, path := [Seg.sym "TAG".toList, elemSeg 4],
                  elements := some 4, tagType := some 196,
                  data := some [Val.int 1, Val.int (-2), Val.int 3, Val.int 4] } :=
  parse_operation_spells liveTypes false "INT".toList exWrite exWrite_ok

/-- a fragmented write at a byte offset: `@0x0099/1/2[0-3]+8=(DINT)7,8` (elements 2..3 of 4) -/
def exFrag : OpSpec :=
  { body := PathBody.numeric 0x99 [1, 2], place := { elem := some 0, count := some 4 }, offset := some 8,
    write := some { ty := tDINT, lo := -2147483648, hi := 4294967295, vals := [7, 8] } }

example : exFrag.text = "@0x0099/1/2[0-3]+8=(DINT)7,8".toList := by decide

example : exFrag.Ok liveTypes true "INT".toList := by
  refine ⟨by decide, by decide, ?_⟩
  intro w hw
  simp only [exFrag, Option.some.injEq] at hw
  subst hw
  refine ⟨by decide, by decide, by decide, by decide, by decide, by decide, ?_⟩
  rw [if_neg (by decide)]
  exact ⟨4, by decide, by decide, by decide, by decide⟩

/-- a read with a `*count`: `Tag.Sub[3]*5` -/
example : ({ body := PathBody.symbolic "Tag".toList ["Sub".toList],
             place := { elem := some 3, count := some 5, star := true } } : OpSpec).text
    = "Tag.Sub[3]*5".toList := by decide

end Examples

/-- **Beyond the hypothesis**: at index 10^8 the 8-byte sender context no longer holds `str(index)`,
and harvest's context assertion fires although the device answered correctly. -/
theorem context_overflow :
    ctxEq (10 ^ 8) (10 ^ 8) = false
    ∧ pipeline (fun (s : Nat) (_ : Nat) => (s + 1, s)) 1 (10 ^ 8 - 1) 0
        (issue (fun _ => (0, 0)) (fun _ => ()) 0 0 0 (10 ^ 8 - 1) [7, 8])
      = ([(10 ^ 8 - 1, 0)], Outcome.mismatch) := by
  constructor <;> decide +kernel

end Cpppo.Client
