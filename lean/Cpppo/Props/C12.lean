import Cpppo.Model.ClientOps
import Cpppo.Model.ClientIssue
namespace Cpppo.Client
theorem placeholder_c12 : True := trivial
end Cpppo.Client
