import Cpppo.Proofs.Merge
import Cpppo.Generated.Tables

/-!
# C19 — Merging register ranges never drops a requested register

Property theorems about the model `Cpppo.Merge.merge` / `shatter` (repaired code: the running length
is `max`ed), for every configuration with positive limits and positive bank size, every finite list
of ranges, every reach and every limit.  `mergeOld` (the code before the `fix:` commit) is shown to
violate coverage on a concrete witness.
-/
namespace Cpppo.Merge

/-- configuration well-formedness (discharged for the extracted constants in `Tie`) -/
def Cfg.WF (cfg : Cfg) : Prop := 0 < cfg.coil ∧ 0 < cfg.reg ∧ 0 < cfg.block

instance (cfg : Cfg) : Decidable cfg.WF := by unfold Cfg.WF; infer_instance

/-- the limit that applies to pieces cut from a block starting at `a` -/
def applicableLimit (cfg : Cfg) (a : Nat) (lim : Option Nat) : Nat := effLimit cfg.coil cfg.reg a lim

/-- **Splitting a range covers it exactly with consecutive pieces of at most the limit.** -/
theorem shatter_tiles (cfg : Cfg) (h : cfg.WF) (a c : Nat) (lim : Option Nat) :
    Consec a (shatter cfg a c lim) (a + c)
    ∧ (∀ r ∈ shatter cfg a c lim, 1 ≤ r.2 ∧ r.2 ≤ applicableLimit cfg a lim)
    ∧ (∀ x, Covers (shatter cfg a c lim) x ↔ a ≤ x ∧ x < a + c) := by
  have hpos : 0 < effLimit cfg.coil cfg.reg a lim := effLimit_pos h.1 h.2.1
  have hc := shatterGo_consec a c _ hpos
  refine ⟨hc, ?_, fun x => hc.covers_iff x⟩
  intro r hr
  exact ⟨(hc.mem r hr).2.2, shatterGo_le a c _ r hr⟩

/-- a register requested by some input range -/
def Requested (rs : List Range) (x : Nat) : Prop := ∃ r ∈ rs, InRange r x

/-- `merge` refuses exactly the empty input (Python: `next()` on an empty iterator). -/
theorem merge_none_iff (cfg : Cfg) (rs : List Range) (reach : Nat) (lim : Option Nat) :
    merge cfg rs reach lim = none ↔ rs = [] := by
  unfold merge mergeWith blocksOf
  constructor
  · intro h
    split at h
    · rename_i hs
      have := (sortRanges_perm rs).length_eq
      rw [hs] at this; simpa using this.symm
    · simp at h
  · rintro rfl; simp [sortRanges]

section
variable (cfg : Cfg) (hcfg : cfg.WF) (rs : List Range) (reach : Nat) (lim : Option Nat)
  (out : List Range) (hout : merge cfg rs reach lim = some out)
include hout

/-- the blocks behind an output -/
private theorem blocks_of_out : ∃ b l rest, sortRanges rs = (b, l) :: rest ∧
    out = (sweep true cfg.block reach b l rest).flatMap fun r => shatter cfg r.1 r.2 lim := by
  unfold merge mergeWith blocksOf at hout
  split at hout
  · simp at hout
  · rename_i b l rest hs
    simp only [Option.map_some, Option.some.injEq] at hout
    exact ⟨b, l, rest, hs, hout.symm⟩

include hcfg

/-- **The union of the output contains every requested register.** -/
theorem merge_covers : ∀ x, Requested rs x → Covers out x := by
  obtain ⟨b, l, rest, hs, rfl⟩ := blocks_of_out cfg rs reach lim out hout
  intro x ⟨r, hr, hrx⟩
  have hsorted := sorted_addr rs
  rw [hs, List.pairwise_cons] at hsorted
  have hr' : r ∈ (b, l) :: rest := by rw [← hs]; exact (sortRanges_perm rs).mem_iff.mpr hr
  have hcov : Covers (sweep true cfg.block reach b l rest) x := by
    apply sweep_covers _ _ _ _ _ hsorted.2 (fun q hq => hsorted.1 q hq)
    simp only [List.mem_cons] at hr'
    rcases hr' with rfl | hr'
    · left; exact hrx
    · right; exact ⟨r, hr', hrx⟩
  obtain ⟨s, hs', hsx⟩ := hcov
  have := (shatter_tiles cfg hcfg s.1 s.2 lim).2.2 x
  obtain ⟨p, hp, hpx⟩ := this.mpr hsx
  exact ⟨p, List.mem_flatMap.mpr ⟨s, hs', hp⟩, hpx⟩

/-- **Output ranges are sorted by address and pairwise disjoint, and none is empty**
(inputs confined to a bank). -/
theorem merge_sorted_disjoint (hbank : ∀ r ∈ rs, InBank cfg.block r) :
    out.Pairwise (fun r q => r.1 + r.2 ≤ q.1) ∧ ∀ r ∈ out, 1 ≤ r.2 := by
  obtain ⟨b, l, rest, hs, rfl⟩ := blocks_of_out cfg rs reach lim out hout
  have hsorted := sorted_addr rs
  rw [hs, List.pairwise_cons] at hsorted
  have hmem : ∀ q ∈ (b, l) :: rest, InBank cfg.block q := by
    intro q hq; rw [← hs] at hq; exact hbank q ((sortRanges_perm rs).mem_iff.mp hq)
  have ⟨hp, _⟩ := sweep_blocks true cfg.block reach b l rest hsorted.2 (fun q hq => hsorted.1 q hq)
    (hmem _ (by simp)) (fun q hq => hmem q (by simp [hq]))
  constructor
  · rw [List.pairwise_flatMap]
    refine ⟨fun s _ => (shatter_tiles cfg hcfg s.1 s.2 lim).1.pairwise, hp.imp ?_⟩
    intro s t hst x hx y hy
    have h1 := (shatter_tiles cfg hcfg s.1 s.2 lim).1.mem x hx
    have h2 := (shatter_tiles cfg hcfg t.1 t.2 lim).1.mem y hy
    omega
  · intro r hr
    obtain ⟨s, _, hrs⟩ := List.mem_flatMap.mp hr
    exact ((shatter_tiles cfg hcfg s.1 s.2 lim).2.1 r hrs).1

/-- **Each output range is no longer than the applicable limit and confined to one bank.** -/
theorem merge_limit_bank (hbank : ∀ r ∈ rs, InBank cfg.block r) :
    ∀ r ∈ out, InBank cfg.block r ∧
      ∃ a, a / cfg.block = r.1 / cfg.block ∧ r.2 ≤ applicableLimit cfg a lim := by
  obtain ⟨b, l, rest, hs, rfl⟩ := blocks_of_out cfg rs reach lim out hout
  have hsorted := sorted_addr rs
  rw [hs, List.pairwise_cons] at hsorted
  have hmem : ∀ q ∈ (b, l) :: rest, InBank cfg.block q := by
    intro q hq; rw [← hs] at hq; exact hbank q ((sortRanges_perm rs).mem_iff.mp hq)
  have ⟨_, hb⟩ := sweep_blocks true cfg.block reach b l rest hsorted.2 (fun q hq => hsorted.1 q hq)
    (hmem _ (by simp)) (fun q hq => hmem q (by simp [hq]))
  intro r hr
  obtain ⟨s, hs', hrs⟩ := List.mem_flatMap.mp hr
  have ht := shatter_tiles cfg hcfg s.1 s.2 lim
  have hin := ht.1.mem r hrs
  have hsb := hb s hs'
  -- r ⊆ s ⊆ one bank, and r is non-empty, so r's own bank is s's bank
  have hdiv : s.1 / cfg.block = r.1 / cfg.block := by
    have hpos := hcfg.2.2
    simp only [InBank] at hsb
    have h1 : s.1 / cfg.block ≤ r.1 / cfg.block := Nat.div_le_div_right hin.1
    have h2 : r.1 < (s.1 / cfg.block + 1) * cfg.block := by omega
    have h3 : r.1 / cfg.block < s.1 / cfg.block + 1 := (Nat.div_lt_iff_lt_mul hpos).mpr h2
    omega
  refine ⟨?_, s.1, hdiv, (ht.2.1 r hrs).2⟩
  simp only [InBank] at hsb ⊢
  rw [← hdiv]; omega

/-- **The output contains no register that is not within the reach distance of a requested one**
(input ranges non-empty). -/
theorem merge_tight (hne : ∀ r ∈ rs, 1 ≤ r.2) :
    ∀ x, Covers out x → Near (Requested rs) (effReach reach) x := by
  obtain ⟨b, l, rest, hs, rfl⟩ := blocks_of_out cfg rs reach lim out hout
  have hsorted := sorted_addr rs
  rw [hs, List.pairwise_cons] at hsorted
  have hmem : ∀ q, q ∈ (b, l) :: rest → q ∈ rs := by
    intro q hq; rw [← hs] at hq; exact (sortRanges_perm rs).mem_iff.mp hq
  have hpos := effReach_pos reach
  have key := sweep_tight true cfg.block reach (Requested rs) b l rest hsorted.2
    (fun q hq => hsorted.1 q hq) (fun q hq => hne q (hmem q (by simp [hq])))
    (fun q hq y hy => ⟨q, hmem q (by simp [hq]), hy⟩)
    (fun x hx => ⟨x, ⟨(b, l), hmem _ (by simp), hx⟩, by omega, by omega⟩)
  intro x ⟨p, hp, hpx⟩
  obtain ⟨s, hs', hps⟩ := List.mem_flatMap.mp hp
  have := (shatter_tiles cfg hcfg s.1 s.2 lim).1.mem p hps
  exact key s hs' x ⟨by simp only [InRange] at hpx; omega, by simp only [InRange] at hpx; omega⟩

end

/-! ### Non-vacuity and witnesses -/

def cfg0 : Cfg := {}

example : cfg0.WF := by decide

/-- hypotheses are satisfiable on a non-trivial input, and `merge` produces an answer -/
example : merge cfg0 [(10, 20), (12, 2), (40001, 3), (34, 1)] 5 (some 7)
    = some [(10, 7), (17, 7), (24, 7), (31, 4), (40001, 3)] := by decide +kernel

example : ∀ r ∈ [((10 : Nat), (20 : Nat)), (12, 2), (40001, 3), (34, 1)],
    InBank cfg0.block r ∧ 1 ≤ r.2 := by simp [InBank, cfg0]

/-- The code before the `fix:` commit drops registers 14..29 of the nested input
`[(10,20),(12,2)]` (the replay used against the implementation). -/
theorem mergeOld_drops_register :
    mergeOld cfg0 [(10, 20), (12, 2)] 1 none = some [(10, 4)] ∧
    Requested [(10, 20), (12, 2)] 20 ∧ ¬ Covers [(10, 4)] 20 := by
  refine ⟨by decide +kernel, ⟨(10, 20), by simp, by simp [InRange]⟩, ?_⟩
  simp [Covers, InRange]

/-- With empty (zero-count) input ranges tightness does not hold: the hypothesis of `merge_tight`
is needed (a zero-count range extends the running block without requesting a register). -/
theorem tight_needs_nonempty :
    merge cfg0 [(10, 1), (14, 0), (18, 0), (22, 0)] 5 none = some [(10, 12)] := by decide +kernel

end Cpppo.Merge

/-! ### Tie to the extracted constants -/
namespace Cpppo.Merge
/-- the configuration extracted from the live source satisfies the theorems' hypothesis -/
theorem generated_cfg_wf :
    ({ coil := Generated.shatterCoilLimit, reg := Generated.shatterRegLimit,
       block := Generated.mergeBlock } : Cfg).WF := by decide
end Cpppo.Merge
