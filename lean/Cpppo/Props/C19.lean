import Cpppo.Proofs.Merge
import Cpppo.Proofs.Poll
import Cpppo.Generated.Tables

/-!
# C19 — Merging register ranges never drops a requested register

Property theorems about the model `Cpppo.Merge.merge` / `shatter` (repaired code: the running length
is `max`ed), for every configuration with positive limits and positive bank size, every finite list
of ranges, every reach and every limit.  `mergeOld` (the code before the `fix:` commit) is shown to
violate coverage on a concrete witness.
-/
namespace Cpppo.Merge

/-- configuration well-formedness (discharged for the extracted constants in `Tie`) -/
def Cfg.WF (cfg : Cfg) : Prop := 0 < cfg.coil ∧ 0 < cfg.reg ∧ 0 < cfg.block

instance (cfg : Cfg) : Decidable cfg.WF := by unfold Cfg.WF; infer_instance

/-- the limit that applies to pieces cut from a block starting at `a` -/
def applicableLimit (cfg : Cfg) (a : Nat) (lim : Option Nat) : Nat := effLimit cfg.coil cfg.reg a lim

/-- **Splitting a range covers it exactly with consecutive pieces of at most the limit.** -/
theorem shatter_tiles (cfg : Cfg) (h : cfg.WF) (a c : Nat) (lim : Option Nat) :
    Consec a (shatter cfg a c lim) (a + c)
    ∧ (∀ r ∈ shatter cfg a c lim, 1 ≤ r.2 ∧ r.2 ≤ applicableLimit cfg a lim)
    ∧ (∀ x, Covers (shatter cfg a c lim) x ↔ a ≤ x ∧ x < a + c) := by
  have hpos : 0 < effLimit cfg.coil cfg.reg a lim := effLimit_pos h.1 h.2.1
  have hc := shatterGo_consec a c _ hpos
  refine ⟨hc, ?_, fun x => hc.covers_iff x⟩
  intro r hr
  exact ⟨(hc.mem r hr).2.2, shatterGo_le a c _ r hr⟩

/-- a register requested by some input range -/
def Requested (rs : List Range) (x : Nat) : Prop := ∃ r ∈ rs, InRange r x

/-- `merge` refuses exactly the empty input (Python: `next()` on an empty iterator). -/
theorem merge_none_iff (cfg : Cfg) (rs : List Range) (reach : Nat) (lim : Option Nat) :
    merge cfg rs reach lim = none ↔ rs = [] := by
  unfold merge mergeWith blocksOf
  constructor
  · intro h
    split at h
    · rename_i hs
      have := (sortRanges_perm rs).length_eq
      rw [hs] at this; simpa using this.symm
    · simp at h
  · rintro rfl; simp [sortRanges]

section
variable (cfg : Cfg) (hcfg : cfg.WF) (rs : List Range) (reach : Nat) (lim : Option Nat)
  (out : List Range) (hout : merge cfg rs reach lim = some out)
include hout

/-- the blocks behind an output -/
private theorem blocks_of_out : ∃ b l rest, sortRanges rs = (b, l) :: rest ∧
    out = (sweep true cfg.block reach b l rest).flatMap fun r => shatter cfg r.1 r.2 lim := by
  unfold merge mergeWith blocksOf at hout
  split at hout
  · simp at hout
  · rename_i b l rest hs
    simp only [Option.map_some, Option.some.injEq] at hout
    exact ⟨b, l, rest, hs, hout.symm⟩

include hcfg

/-- **The union of the output contains every requested register.** -/
theorem merge_covers : ∀ x, Requested rs x → Covers out x := by
  obtain ⟨b, l, rest, hs, rfl⟩ := blocks_of_out cfg rs reach lim out hout
  intro x ⟨r, hr, hrx⟩
  have hsorted := sorted_addr rs
  rw [hs, List.pairwise_cons] at hsorted
  have hr' : r ∈ (b, l) :: rest := by rw [← hs]; exact (sortRanges_perm rs).mem_iff.mpr hr
  have hcov : Covers (sweep true cfg.block reach b l rest) x := by
    apply sweep_covers _ _ _ _ _ hsorted.2 (fun q hq => hsorted.1 q hq)
    simp only [List.mem_cons] at hr'
    rcases hr' with rfl | hr'
    · left; exact hrx
    · right; exact ⟨r, hr', hrx⟩
  obtain ⟨s, hs', hsx⟩ := hcov
  have := (shatter_tiles cfg hcfg s.1 s.2 lim).2.2 x
  obtain ⟨p, hp, hpx⟩ := this.mpr hsx
  exact ⟨p, List.mem_flatMap.mpr ⟨s, hs', hp⟩, hpx⟩

/-- **Output ranges are sorted by address and pairwise disjoint, and none is empty**
(inputs confined to a bank). -/
theorem merge_sorted_disjoint (hbank : ∀ r ∈ rs, InBank cfg.block r) :
    out.Pairwise (fun r q => r.1 + r.2 ≤ q.1) ∧ ∀ r ∈ out, 1 ≤ r.2 := by
  obtain ⟨b, l, rest, hs, rfl⟩ := blocks_of_out cfg rs reach lim out hout
  have hsorted := sorted_addr rs
  rw [hs, List.pairwise_cons] at hsorted
  have hmem : ∀ q ∈ (b, l) :: rest, InBank cfg.block q := by
    intro q hq; rw [← hs] at hq; exact hbank q ((sortRanges_perm rs).mem_iff.mp hq)
  have ⟨hp, _⟩ := sweep_blocks true cfg.block reach b l rest hsorted.2 (fun q hq => hsorted.1 q hq)
    (hmem _ (by simp)) (fun q hq => hmem q (by simp [hq]))
  constructor
  · rw [List.pairwise_flatMap]
    refine ⟨fun s _ => (shatter_tiles cfg hcfg s.1 s.2 lim).1.pairwise, hp.imp ?_⟩
    intro s t hst x hx y hy
    have h1 := (shatter_tiles cfg hcfg s.1 s.2 lim).1.mem x hx
    have h2 := (shatter_tiles cfg hcfg t.1 t.2 lim).1.mem y hy
    omega
  · intro r hr
    obtain ⟨s, _, hrs⟩ := List.mem_flatMap.mp hr
    exact ((shatter_tiles cfg hcfg s.1 s.2 lim).2.1 r hrs).1

/-- **Each output range is no longer than the applicable limit and confined to one bank.** -/
theorem merge_limit_bank (hbank : ∀ r ∈ rs, InBank cfg.block r) :
    ∀ r ∈ out, InBank cfg.block r ∧
      ∃ a, a / cfg.block = r.1 / cfg.block ∧ r.2 ≤ applicableLimit cfg a lim := by
  obtain ⟨b, l, rest, hs, rfl⟩ := blocks_of_out cfg rs reach lim out hout
  have hsorted := sorted_addr rs
  rw [hs, List.pairwise_cons] at hsorted
  have hmem : ∀ q ∈ (b, l) :: rest, InBank cfg.block q := by
    intro q hq; rw [← hs] at hq; exact hbank q ((sortRanges_perm rs).mem_iff.mp hq)
  have ⟨_, hb⟩ := sweep_blocks true cfg.block reach b l rest hsorted.2 (fun q hq => hsorted.1 q hq)
    (hmem _ (by simp)) (fun q hq => hmem q (by simp [hq]))
  intro r hr
  obtain ⟨s, hs', hrs⟩ := List.mem_flatMap.mp hr
  have ht := shatter_tiles cfg hcfg s.1 s.2 lim
  have hin := ht.1.mem r hrs
  have hsb := hb s hs'
  -- r ⊆ s ⊆ one bank, and r is non-empty, so r's own bank is s's bank
  have hdiv : s.1 / cfg.block = r.1 / cfg.block := by
    have hpos := hcfg.2.2
    simp only [InBank] at hsb
    have h1 : s.1 / cfg.block ≤ r.1 / cfg.block := Nat.div_le_div_right hin.1
    have h2 : r.1 < (s.1 / cfg.block + 1) * cfg.block := by omega
    have h3 : r.1 / cfg.block < s.1 / cfg.block + 1 := (Nat.div_lt_iff_lt_mul hpos).mpr h2
    omega
  refine ⟨?_, s.1, hdiv, (ht.2.1 r hrs).2⟩
  simp only [InBank] at hsb ⊢
  rw [← hdiv]; omega

/-- **The output contains no register that is not within the reach distance of a requested one**
(input ranges non-empty). -/
theorem merge_tight (hne : ∀ r ∈ rs, 1 ≤ r.2) :
    ∀ x, Covers out x → Near (Requested rs) (effReach reach) x := by
  obtain ⟨b, l, rest, hs, rfl⟩ := blocks_of_out cfg rs reach lim out hout
  have hsorted := sorted_addr rs
  rw [hs, List.pairwise_cons] at hsorted
  have hmem : ∀ q, q ∈ (b, l) :: rest → q ∈ rs := by
    intro q hq; rw [← hs] at hq; exact (sortRanges_perm rs).mem_iff.mp hq
  have hpos := effReach_pos reach
  have key := sweep_tight true cfg.block reach (Requested rs) b l rest hsorted.2
    (fun q hq => hsorted.1 q hq) (fun q hq => hne q (hmem q (by simp [hq])))
    (fun q hq y hy => ⟨q, hmem q (by simp [hq]), hy⟩)
    (fun x hx => ⟨x, ⟨(b, l), hmem _ (by simp), hx⟩, by omega, by omega⟩)
  intro x ⟨p, hp, hpx⟩
  obtain ⟨s, hs', hps⟩ := List.mem_flatMap.mp hp
  have := (shatter_tiles cfg hcfg s.1 s.2 lim).1.mem p hps
  exact key s hs' x ⟨by simp only [InRange] at hpx; omega, by simp only [InRange] at hpx; omega⟩

end

/-! ### Non-vacuity and witnesses -/

def cfg0 : Cfg := {}

example : cfg0.WF := by decide

/-- hypotheses are satisfiable on a non-trivial input, and `merge` produces an answer -/
example : merge cfg0 [(10, 20), (12, 2), (40001, 3), (34, 1)] 5 (some 7)
    = some [(10, 7), (17, 7), (24, 7), (31, 4), (40001, 3)] := by decide +kernel

example : ∀ r ∈ [((10 : Nat), (20 : Nat)), (12, 2), (40001, 3), (34, 1)],
    InBank cfg0.block r ∧ 1 ≤ r.2 := by simp [InBank, cfg0]

/-- The code before the `fix:` commit drops registers 14..29 of the nested input
`[(10,20),(12,2)]` (the replay used against the implementation). -/
theorem mergeOld_drops_register :
    mergeOld cfg0 [(10, 20), (12, 2)] 1 none = some [(10, 4)] ∧
    Requested [(10, 20), (12, 2)] 20 ∧ ¬ Covers [(10, 4)] 20 := by
  refine ⟨by decide +kernel, ⟨(10, 20), by simp, by simp [InRange]⟩, ?_⟩
  simp [Covers, InRange]

/-- With empty (zero-count) input ranges tightness does not hold: the hypothesis of `merge_tight`
is needed (a zero-count range extends the running block without requesting a register). -/
theorem tight_needs_nonempty :
    merge cfg0 [(10, 1), (14, 0), (18, 0), (22, 0)] 5 none = some [(10, 12)] := by decide +kernel

end Cpppo.Merge

/-! ### Tie to the extracted constants -/
namespace Cpppo.Merge
/-- the configuration extracted from the live source satisfies the theorems' hypothesis -/
theorem generated_cfg_wf :
    ({ coil := Generated.shatterCoilLimit, reg := Generated.shatterRegLimit,
       block := Generated.mergeBlock } : Cfg).WF := by decide
end Cpppo.Merge

/-!
## The poll cycle built on `merge` (`poller_modbus._poller`, `_read`, `_store`)

One turn of the polling loop polls exactly the merged ranges of the known addresses.  For every bank
table in which no two Modbus functions share a 10000-block (checked for the table regenerated from the
live `_read`), every reach, every device and every prior state:
-/
namespace Cpppo.Poll
open Cpppo.Merge

/-- the register kinds whose transfer limit is the coil limit: banks of bits lie inside the address
ranges `shatter` counts as bits, banks of words outside them -/
def BitAddr (a : Nat) : Prop := (1 ≤ a ∧ a ≤ 9999) ∨ (10001 ≤ a ∧ a ≤ 19999) ∨ (100001 ≤ a ∧ a ≤ 165536)

instance (a : Nat) : Decidable (BitAddr a) := by unfold BitAddr; infer_instance

def BanksLimitOK (banks : List Bank) : Prop :=
  ∀ e ∈ banks, if e.2.2.1 ≤ 1
    then (1 ≤ e.1 ∧ e.2.1 ≤ 9999) ∨ (10001 ≤ e.1 ∧ e.2.1 ≤ 19999) ∨ (100001 ≤ e.1 ∧ e.2.1 ≤ 165536)
    else (e.2.1 < 1 ∨ 9999 < e.1) ∧ (e.2.1 < 10001 ∨ 19999 < e.1) ∧ (e.2.1 < 100001 ∨ 165536 < e.1)

instance (banks : List Bank) : Decidable (BanksLimitOK banks) := by unfold BanksLimitOK; infer_instance

section
variable (banks : List Bank) (cfg : Cfg) (hcfg : cfg.WF) (reach : Nat) (dev : Dev) (st : PState)

/-- **A poll cycle stores only known addresses: it neither creates nor drops one.** -/
theorem cycle_keys : (pollCycle banks cfg reach dev st).data.map (·.1) = st.data.map (·.1) := by
  unfold pollCycle
  split
  · rfl
  · exact fold_keys banks dev _ _

include hcfg

/-- **Every known register is polled by exactly the merged range that contains it: afterwards it holds the
device's value for its own address (function and offset of `_read`'s translation), or - when the read of
that range failed - what it held before.** -/
theorem cycle_value (hwf : BanksWF cfg.block banks) (hkeys : KeysValid banks st.data)
    {x k o : Nat} {v : Option Nat} (hx : lookup st.data x = some v) (ht : translate banks x = some (k, o)) :
    ∃ rngs r, merge cfg (keys st.data) reach none = some rngs ∧ r ∈ rngs ∧ InRange r x ∧
      lookup (pollCycle banks cfg reach dev st).data x =
        some (if (readRange banks dev r).isSome then some (dev.val k o) else v) := by
  obtain ⟨kv, hkv, hkx⟩ := lookup_mem hx
  have hreq : Requested (keys st.data) x := ⟨(x, 1), by simp only [keys, List.mem_map]; exact ⟨kv, hkv, by rw [hkx]⟩,
    by simp [InRange]⟩
  cases hm : merge cfg (keys st.data) reach none with
  | none =>
    have := (merge_none_iff cfg (keys st.data) reach none).mp hm
    simp only [keys, List.map_eq_nil_iff] at this
    rw [this] at hkv; simp at hkv
  | some rngs =>
    obtain ⟨r, hr, hrx⟩ := merge_covers cfg hcfg (keys st.data) reach none rngs hm x hreq
    have hbank : ∀ q ∈ keys st.data, InBank cfg.block q := by
      intro q hq
      simp only [keys, List.mem_map] at hq
      obtain ⟨kv, _, rfl⟩ := hq
      simp only [InBank]
      have := Nat.lt_mul_div_succ kv.1 hcfg.2.2
      rw [Nat.mul_comm] at this
      omega
    have hpw := (merge_sorted_disjoint cfg hcfg (keys st.data) reach none rngs hm hbank).1
    refine ⟨rngs, r, rfl, hr, hrx, ?_⟩
    unfold pollCycle
    simp only [hm]
    rw [fold_lookup_in banks dev rngs hpw _ r hr x hrx v hx]
    obtain ⟨_, k', off, hk', hcell, _⟩ := piece_translate hcfg.1 hcfg.2.1 hwf hkeys hm r hr
    cases hrd : readRange banks dev r with
    | none => simp
    | some vals =>
      have hv := readRange_eq hk' hrd
      have hxt := hcell x hrx.1 hrx.2
      rw [ht] at hxt
      simp only [Option.some.injEq, Prod.mk.injEq] at hxt
      subst hv
      simp only [Option.isSome_some, ↓reduceIte, Option.some.injEq]
      have hlt : x - r.1 < r.2 := by simp only [InRange] at hrx; omega
      simp [cells, hlt, hxt.1, hxt.2]

/-- **With a device that answers, one cycle brings every known register up to date, and the poller is online.** -/
theorem cycle_fresh (hwf : BanksWF cfg.block banks) (hkeys : KeysValid banks st.data)
    (hdev : ∀ k o, dev.bad k o = false)
    {x k o : Nat} {v : Option Nat} (hx : lookup st.data x = some v) (ht : translate banks x = some (k, o)) :
    lookup (pollCycle banks cfg reach dev st).data x = some (some (dev.val k o))
    ∧ (pollCycle banks cfg reach dev st).online = true
    ∧ (pollCycle banks cfg reach dev st).failing = [] := by
  obtain ⟨rngs, r, hm, hr, hrx, hval⟩ := cycle_value banks cfg hcfg reach dev st hwf hkeys hx ht
  have hall : ∀ q ∈ rngs, (readRange banks dev q).isSome = true := by
    intro q hq
    obtain ⟨_, k', off, hk', _, _⟩ := piece_translate hcfg.1 hcfg.2.1 hwf hkeys hm q hq
    rw [readRange_some hk' (fun i _ => hdev _ _)]; rfl
  refine ⟨by rw [hval, hall r hr]; rfl, ?_, ?_⟩
  · unfold pollCycle
    simp only [hm]
    rw [(fold_lists banks dev rngs _).1]
    have : r ∈ rngs.filter fun r => (readRange banks dev r).isSome := List.mem_filter.mpr ⟨hr, hall r hr⟩
    cases hf : rngs.filter fun r => (readRange banks dev r).isSome with
    | nil => rw [hf] at this; simp at this
    | cons a l => simp
  · unfold pollCycle
    simp only [hm]
    rw [(fold_lists banks dev rngs _).2]
    simp only [List.nil_append, List.filter_eq_nil_iff]
    intro q hq
    have := hall q hq
    cases h : readRange banks dev q <;> simp_all

/-- **Every request a cycle puts on the wire is non-empty, addresses one Modbus function only (each of its
cells is the translation of a valid address of that function), and is no longer than that function's
transfer limit.** -/
theorem cycle_requests_ok (hwf : BanksWF cfg.block banks) (hlim : BanksLimitOK banks)
    (hkeys : KeysValid banks st.data) :
    ∀ q ∈ requests banks cfg reach st, 1 ≤ q.2.2 ∧ q.2.2 ≤ (if q.1 ≤ 1 then cfg.coil else cfg.reg) ∧
      ∃ a, translate banks a = some (q.1, q.2.1) ∧
        ∀ i, i < q.2.2 → translate banks (a + i) = some (q.1, q.2.1 + i) := by
  intro q hq
  unfold requests at hq
  split at hq
  · simp at hq
  · rename_i rngs hm
    simp only [List.mem_filterMap, Option.map_eq_some_iff] at hq
    obtain ⟨r, hr, ko, hko, rfl⟩ := hq
    obtain ⟨h1, k, off, hk, hcell, s1, o1, hs1, hle⟩ := piece_translate hcfg.1 hcfg.2.1 hwf hkeys hm r hr
    rw [hk] at hko
    simp only [Option.some.injEq] at hko
    subst hko
    show 1 ≤ r.2 ∧ r.2 ≤ (if k ≤ 1 then cfg.coil else cfg.reg) ∧
      ∃ a, translate banks a = some (k, off) ∧ ∀ i, i < r.2 → translate banks (a + i) = some (k, off + i)
    refine ⟨h1, ?_, r.1, hk, ?_⟩
    · obtain ⟨e, he, he1, he2, hek, _⟩ := translate_some hs1
      have hl := hlim e he
      unfold defaultLimit at hle
      rw [← hek] at hl
      by_cases hk1 : k ≤ 1
      · rw [if_pos hk1] at hl ⊢
        rw [if_pos (by omega)] at hle
        exact hle
      · rw [if_neg hk1] at hl ⊢
        rw [if_neg (by omega)] at hle
        exact hle
    · intro i hi
      have := hcell (r.1 + i) (by omega) (by omega)
      rw [this]
      congr 2
      omega

end

/-! ### tie to the live code and non-vacuity -/

/-- the table regenerated from `poller_modbus._read` by scanning every address satisfies the hypotheses -/
theorem generated_banks_wf : BanksWF Generated.mergeBlock Generated.modbusReadBanks := by decide

theorem generated_banks_limit_ok : BanksLimitOK Generated.modbusReadBanks := by decide

/-- only coils and holding registers are writable, at the same offsets as they are read -/
theorem generated_write_banks :
    ∀ e ∈ Generated.modbusWriteBanks, e ∈ Generated.modbusReadBanks ∧ (e.2.2.1 = 0 ∨ e.2.2.1 = 2) := by decide

def demoDev : Dev := { val := fun k o => 1000 * k + o, bad := fun k o => k == 3 && o == 7 }
def demoState : PState := { data := [(40003, none), (1, some 5), (40001, none), (30008, some 9), (3, none), (30001, none)] }

example : KeysValid Generated.modbusReadBanks demoState.data := by
  intro kv hkv
  simp only [demoState, List.mem_cons, List.not_mem_nil, or_false] at hkv
  rcases hkv with rfl | rfl | rfl | rfl | rfl | rfl <;> exact ⟨_, _, rfl⟩

/-- a cycle on a concrete state: two coils and two holding registers come back fresh through one request each,
the input registers 30001..30008 travel in one request that fails (cell 7 is bad) and keep what they held -/
example : (pollCycle Generated.modbusReadBanks cfg0 100 demoDev demoState).data
      = [(40003, some 2002), (1, some 0), (40001, some 2000), (30008, some 9), (3, some 2), (30001, none)]
    ∧ (pollCycle Generated.modbusReadBanks cfg0 100 demoDev demoState).polling = [(1, 3), (40001, 3)]
    ∧ (pollCycle Generated.modbusReadBanks cfg0 100 demoDev demoState).failing = [(30001, 8)]
    ∧ requests Generated.modbusReadBanks cfg0 100 demoState = [(0, 0, 3), (3, 0, 8), (2, 0, 3)] := by decide +kernel

end Cpppo.Poll
