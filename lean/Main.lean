import Cpppo.Driver.All
/-! `cpppo_model`: one case per input line, one answer per output line. -/
open Cpppo

partial def loop (inp : IO.FS.Stream) (out : IO.FS.Stream) : IO Unit := do
  let line ← inp.getLine
  if line.isEmpty then return ()
  let ws := Wire.words line
  match Driver.dispatch ws with
  | some r => out.putStrLn r
  | none => out.putStrLn "bad-op"
  out.flush      -- one answer per line, delivered at once: lets a harness keep a driver process open (C14)
  loop inp out

def main : IO Unit := do
  let inp ← IO.getStdin
  let out ← IO.getStdout
  loop inp out
  out.flush
