import Cpppo.Driver.Merge
/-! `cpppo_model`: one case per input line, one answer per output line. -/
open Cpppo

def dispatch (ws : List String) : Option String :=
  match ws with
  | [] => some ""
  | cmd :: _ =>
    if cmd == "merge" || cmd == "shatter" then Driver.Merge.handle ws
    else none

partial def loop (inp : IO.FS.Stream) (out : IO.FS.Stream) : IO Unit := do
  let line ← inp.getLine
  if line.isEmpty then return ()
  let ws := Wire.words line
  match dispatch ws with
  | some r => out.putStrLn r
  | none => out.putStrLn "bad-op"
  loop inp out

def main : IO Unit := do
  let inp ← IO.getStdin
  let out ← IO.getStdout
  loop inp out
  out.flush
